#!/bin/sh
# usage: tools/seedtest.sh <property-id> <patch.diff>   -- applies a seeded change to /repo, runs the quick check, reverts.
set -u
ID="$1"; PATCH="$2"
cd /repo || exit 2
if ! git diff --quiet; then echo "/repo has uncommitted changes" >&2; exit 2; fi
if ! git apply --3way "$PATCH" 2>/dev/null && ! git apply "$PATCH"; then echo "PATCH DOES NOT APPLY"; git checkout -- . ; git reset -q; exit 3; fi
git reset -q
export GOFLAGS=-mod=mod GOPROXY=off GOSUMDB=off GOTOOLCHAIN=local
go build ./... || { echo "BUILD FAILS"; git checkout -- .; exit 3; }
(cd /verif && ./check "$ID" quick); rc=$?
git checkout -- .
(cd /verif && git checkout -- evidence 2>/dev/null)
echo "check exit=$rc"
exit 0
