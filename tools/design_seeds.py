#!/usr/bin/env python3
"""Regenerates the table and the totals of DESIGN.md section 9.4 from seeded/*/result.json."""
import json, re, glob, os
p = '/verif/DESIGN.md'
s = open(p).read()
rows = []; cnt = {}
for d in sorted(glob.glob('/verif/seeded/C*mut*')):
    n = os.path.basename(d)
    r = json.load(open(d + '/result.json')) if os.path.exists(d + '/result.json') else {"status": "property not claimed"}
    st = r.get("status"); cnt[st] = cnt.get(st, 0) + 1
    v = (r.get("violations") or [""])[0]; v = re.sub(r"\.json.*", "", v)
    rows.append("| %s | %s | %s |" % (n, st, v))
i0 = s.index("| change | result | first failed obligation |\n|---|---|---|\n", s.index("### 9.4"))
i1 = s.index("\n\nMissed, with the reason:", i0)
s = s[:i0] + "| change | result | first failed obligation |\n|---|---|---|\n" + "\n".join(rows) + s[i1:]
s = re.sub(r"\*\*\d+ caught, \d+ missed, \d+ not claimed \(C10\)\*\*", "**%d caught, %d missed, %d not claimed (C10)**" % (cnt.get("caught", 0), cnt.get("missed", 0), cnt.get("property not claimed", 0)), s)
open(p, 'w').write(s)
print(cnt)
