#!/usr/bin/env python3
"""Runs every seeded change in /verif/seeded against the quick check of its property (applied to /repo, reverted
straight afterwards) and writes seeded/RESULTS.md + seeded/<id>/result.json."""
import json, os, re, subprocess, sys, glob
claimed = {c["property_id"] for c in json.load(open("/verif/MANIFEST.json"))["checks"]}
only = sys.argv[1:]
rows = []
def sh(cmd, cwd=None, timeout=1800):
    p = subprocess.run(cmd, shell=True, cwd=cwd, capture_output=True, text=True, timeout=timeout)
    return p.returncode, p.stdout + p.stderr
rc, out = sh("git status --porcelain", "/repo")
if out.strip():
    print("/repo has uncommitted changes:\n" + out); sys.exit(2)
for d in sorted(glob.glob("/verif/seeded/C*mut*")):
    name = os.path.basename(d); pid = name.split("-")[0]
    if only and name not in only and pid not in only: continue
    res = {"id": name, "property": pid}
    if pid not in claimed:
        res["status"] = "property not claimed"; rows.append(res); continue
    patch = d + "/patch-rebased.diff" if os.path.exists(d + "/patch-rebased.diff") else d + "/patch.diff"
    rc, out = sh("git apply --3way %s || git apply %s" % (patch, patch), "/repo")
    sh("git reset -q", "/repo")
    if rc != 0:
        res["status"] = "patch does not apply to the current tree"; sh("git checkout -- .", "/repo"); rows.append(res); continue
    rc, out = sh("GOFLAGS=-mod=mod GOPROXY=off GOSUMDB=off GOTOOLCHAIN=local go build ./...", "/repo")
    if rc != 0:
        res["status"] = "does not build on the current tree"; sh("git checkout -- .", "/repo"); rows.append(res); continue
    rc, out = sh("./check %s quick" % pid, "/verif")
    sh("git checkout -- .", "/repo")
    viol = [l for l in out.split("\n") if l.startswith("VIOLATION")]
    res["check_exit"] = rc
    res["violations"] = [re.sub(r".*replay=/verif/replay/[^/]*/", "", v) for v in viol]
    res["status"] = "caught" if rc == 1 and viol else "missed"
    json.dump(res, open(d + "/result.json", "w"), indent=1)
    rows.append(res)
    print(name, res["status"], res.get("violations", [])[:3], flush=True)
# merge with previous results for rows not re-run
prev = {}
for d in sorted(glob.glob("/verif/seeded/C*mut*")):
    if os.path.exists(d + "/result.json"):
        prev[os.path.basename(d)] = json.load(open(d + "/result.json"))
for r in rows:
    prev[r["id"]] = r
with open("/verif/seeded/RESULTS.md", "w") as f:
    f.write("# Seeded changes vs. checks\n\n| change | property | result | failed obligations (first 3) | what it needs |\n|---|---|---|---|---|\n")
    for k in sorted(prev):
        r = prev[k]
        meta = json.load(open("/verif/seeded/%s/meta.json" % k))
        f.write("| %s | %s | %s | %s | %s |\n" % (k, r["property"], r["status"], "<br>".join(r.get("violations", [])[:3]).replace("|", "\\|"), (meta.get("needs") or "")[:160].replace("|", "\\|").replace("\n", " ")))
sh("git checkout -- evidence", "/verif")
print("written seeded/RESULTS.md")
