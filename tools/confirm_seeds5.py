#!/usr/bin/env python3
"""Confirms each seeded change in its scratch worktree (builds, suite passes, demo fails with / passes without) and
copies it to /verif/seeded/<ID>-mut<k>/ with a meta.json that records what was run."""
import json, os, re, shutil, subprocess, sys, glob
ENV = dict(os.environ, GOFLAGS="-mod=mod", GOPROXY="off", GOSUMDB="off", GOTOOLCHAIN="local")
def sh(cmd, cwd=None, timeout=900):
    p = subprocess.run(cmd, shell=True, cwd=cwd, env=ENV, capture_output=True, text=True, timeout=timeout)
    return p.returncode, (p.stdout + p.stderr)[-3000:]
only = sys.argv[1:] 
for d in sorted(glob.glob("/tmp/C*r5-out/mut*")):
    pid = re.search(r"/(C\d+)r5-out", d).group(1); k = d[-1]
    name = "%s-r5mut%s" % (pid, k)
    if only and name not in only: continue
    wt = "/tmp/seed5-" + pid
    meta = json.load(open(d + "/meta.json"))
    demo = meta.get("demo", "")
    demo = re.split(r"\s{2,}[(#]", demo)[0]
    demo = demo.replace("Unit level:", "").replace("<repo>", wt).strip()
    if "rm " not in demo and "cp " in demo:
        # remove copied test files afterwards
        m = re.match(r"cp (\S+) (\S+)", demo)
        if m:
            dst = m.group(2)
            if dst.endswith("/"): dst += os.path.basename(m.group(1))
            demo += " ; rm -f " + dst
    res = {"property": pid, "id": name, "summary": meta.get("summary"), "needs": meta.get("needs"), "files_changed": meta.get("files_changed"), "demo_cmd": demo, "base_commit": "/repo HEAD at round 5 (389bd3e, contract files removed)"}
    sh("git checkout -- . && git clean -fdq", wt)
    rc, out = sh("git apply %s/patch.diff" % d, wt); res["patch_applies"] = rc == 0
    rc, out = sh("go build ./...", wt); res["builds_with_change"] = rc == 0
    rc, out = sh("go test -vet=off -count=1 ./... 2>&1 | grep -v '^ok\\|no test files' ; true", wt); res["suite_passes_with_change"] = ("FAIL" not in out); res["suite_output_with_change"] = out[-400:]
    rc, out = sh(demo, wt); res["demo_fails_with_change"] = ("FAIL" in out or "panic" in out or rc != 0); res["demo_output_with_change"] = out[-600:]
    sh("git checkout -- . && git clean -fdq", wt)
    rc, out = sh(demo, wt); res["demo_passes_without_change"] = ("FAIL" not in out and "panic:" not in out); res["demo_output_without_change"] = out[-300:]
    sh("git checkout -- . && git clean -fdq", wt)
    res["confirmed"] = all(res[x] for x in ["patch_applies", "builds_with_change", "suite_passes_with_change", "demo_fails_with_change", "demo_passes_without_change"])
    dst = "/verif/seeded/" + name
    if os.path.exists(dst): shutil.rmtree(dst)
    shutil.copytree(d, dst)
    json.dump(meta, open(dst + "/meta.agent.json", "w"), indent=1)
    json.dump(res, open(dst + "/meta.json", "w"), indent=1)
    print(name, "confirmed" if res["confirmed"] else "NOT CONFIRMED", {x: res[x] for x in res if isinstance(res[x], bool)}, flush=True)
