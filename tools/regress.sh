#!/bin/sh
# Runs every claimed check on the current /repo tree and prints one summary line per property.
cd /verif
for p in $(python3 -c "import json;print(' '.join(c['property_id'] for c in json.load(open('MANIFEST.json'))['checks']))"); do
  ./check $p quick 2>&1 | grep -v "^KNOWN-FINDING" | tail -3 | grep -E "VIOLATION|obligations"
done
