package thrift_reflection

// Witness for known finding C07-reflection-map-order (obligation generator/golang/extension/meta.write#maploop:1#commute):
// map-typed descriptor fields (namespaces, annotations, includes) are written in reflective MapRange order, so the
// bytes embedded in *-reflection.go differ between runs.

import (
	"bytes"
	"testing"
)

func TestWitnessReflectionMapOrder(t *testing.T) {
	fd := &FileDescriptor{Filepath: "a.thrift", Namespaces: map[string]string{}, Includes: map[string]string{}}
	for _, n := range []string{"go", "java", "py", "cpp", "rs", "js", "php", "rb"} {
		fd.Namespaces[n] = "x." + n
	}
	first, err := fd.Marshal()
	if err != nil {
		t.Fatal(err)
	}
	for i := 0; i < 64; i++ {
		b, _ := fd.Marshal()
		if !bytes.Equal(first, b) {
			t.Fatalf("two encodings of the same descriptor differ (run %d)", i)
		}
	}
}
