package unknown

// Witness for finding C09-readstring-truncated (failed obligations binaryProtocol.ReadString#safety:slice:1 and
// binaryProtocol.ReadBinary#safety:slice:1): the length check compares the declared size with len(buf) instead of
// with the bytes left after the 4-byte length prefix, so a truncated string field slices past the buffer. Stored
// unknown fields that end in such a field make Fields.Write panic instead of returning an error.

import "testing"

func TestWitnessReadStringTruncated(t *testing.T) {
	buf := []byte{0, 0, 0, 2, 'a'} // declared length 2, one byte present
	defer func() {
		if r := recover(); r != nil {
			t.Errorf("Binary.ReadString(%v): panic: %v", buf, r)
		}
	}()
	if _, _, err := Binary.ReadString(buf[:5:5]); err == nil {
		t.Errorf("Binary.ReadString(%v): no error for a truncated string", buf)
	}
}

func TestWitnessReadBinaryTruncated(t *testing.T) {
	buf := []byte{0, 0, 0, 2, 'a'}
	defer func() {
		if r := recover(); r != nil {
			t.Errorf("Binary.ReadBinary(%v): panic: %v", buf, r)
		}
	}()
	if _, _, err := Binary.ReadBinary(buf[:5:5]); err == nil {
		t.Errorf("Binary.ReadBinary(%v): no error for a truncated value", buf)
	}
}
