package semantic

// Witness for finding C04-cyclic-typedef-enum-lookup (no termination measure could be given for semantic.getEnum: the
// `decreases` obligation of its recursive calls has nothing to decrease; reported independently by a seeded-change
// agent). getEnum follows typedefs recursively without a guard, and ResolveConstValue calls it for every identifier of
// the form a.b BEFORE ResolveTypedefs would reject a typedef cycle: `typedef A A` plus a default value `A.foo` makes
// thriftgo spin for about a minute and die with "fatal error: stack overflow" instead of printing a diagnostic.
// The stack limit is lowered so that the overflow shows at once; a stack overflow cannot be recovered, the test
// process dies with the runtime's trace.

import (
	"runtime/debug"
	"testing"

	"github.com/cloudwego/thriftgo/parser"
)

func TestWitnessCyclicTypedefEnumLookup(t *testing.T) {
	debug.SetMaxStack(8 << 20)
	for _, src := range []string{
		"typedef A A\nstruct S { 1: i32 f = A.foo }\n",
		"typedef A B\ntypedef B A\nconst i32 x = A.foo\n",
	} {
		ast, err := parser.ParseString("a.thrift", src)
		if err != nil {
			t.Fatal(err)
		}
		if err := ResolveSymbols(ast); err == nil {
			t.Errorf("cyclic typedef accepted: %q", src)
		}
	}
}
