package generator

// Witness for finding C11-plugins-accumulate (failed obligations generator.Generator.Generate#invariant-init:loop2:
// len(g.plugins) == len(out.UsedPlugins), hence the index out.UsedPlugins[i] in the plugin loop): Generator.plugins
// is appended to by every Generate call and never reset, so the second target of one thriftgo run (-g a -g b -p x)
// runs the first target's plugins again and then indexes past out.UsedPlugins.

import (
	"testing"

	"github.com/cloudwego/thriftgo/generator/backend"
	"github.com/cloudwego/thriftgo/parser"
	"github.com/cloudwego/thriftgo/plugin"
)

type witnessPlugin struct {
	name string
	runs *[]string
}

func (p *witnessPlugin) Name() string { return p.name }
func (p *witnessPlugin) Execute(req *plugin.Request) *plugin.Response {
	*p.runs = append(*p.runs, p.name+":"+join(req.PluginParameters))
	return plugin.NewResponse()
}

func join(ss []string) string {
	out := ""
	for _, s := range ss {
		out += s + ";"
	}
	return out
}

type witnessBackend struct{ runs []string }

func (b *witnessBackend) Name() string { return "w" }
func (b *witnessBackend) Lang() string { return "w" }
func (b *witnessBackend) Generate(req *plugin.Request, log backend.LogFunc) *plugin.Response {
	return plugin.NewResponse()
}
func (b *witnessBackend) Options() []plugin.Option       { return nil }
func (b *witnessBackend) BuiltinPlugins() []*plugin.Desc { return nil }
func (b *witnessBackend) GetPlugin(d *plugin.Desc) plugin.Plugin {
	return &witnessPlugin{name: d.Name, runs: &b.runs}
}

func TestWitnessPluginsAccumulate(t *testing.T) {
	be := &witnessBackend{}
	var g Generator
	if err := g.RegisterBackend(be); err != nil {
		t.Fatal(err)
	}
	run := func(opt string) (panicked interface{}) {
		defer func() { panicked = recover() }()
		req := &plugin.Request{Version: "t", Language: "w", OutputPath: "./gen-w", AST: &parser.Thrift{Filename: "a.thrift"}}
		res := g.Generate(&Arguments{
			Out: &LangSpec{Language: "w", UsedPlugins: []*plugin.Desc{{Name: "p", Options: []plugin.Option{{Name: opt}}}}},
			Req: req,
			Log: backend.DummyLogFunc(),
		})
		if e := res.GetError(); e != "" {
			t.Fatalf("generate failed: %s", e)
		}
		return nil
	}
	if p := run("first"); p != nil {
		t.Fatalf("first target: panic: %v", p)
	}
	if p := run("second"); p != nil {
		t.Errorf("second target of the same generator: panic: %v", p)
	}
	if len(be.runs) != 2 || be.runs[0] != "p:first=;" || be.runs[1] != "p:second=;" {
		t.Errorf("each target must run its own plugin once with its own parameters, got %q", be.runs)
	}
}
