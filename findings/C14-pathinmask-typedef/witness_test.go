package fieldmask

// Witness for finding C14-pathinmask-typedef (reported by a seeded-change agent; the site assertions "a descriptor asked
// for its kind has had its typedefs followed" on GetPath cannot be discharged on the unrepaired code). NewFieldMask
// follows typedefs (unwrapDesc) at every step, GetPath / PathInMask did not: a path that goes through a field whose
// type is a typedef of a list, map or struct builds a mask, and the very same path is then reported as NOT in the mask.

import "testing"

func TestWitnessPathInMaskTypedef(t *testing.T) {
	desc := GetDescriptor(`
struct Val { 1: string A, 2: string B }
typedef Val Key
typedef list<Val> VL
typedef map<string,Val> VM
struct Root {
  1: VL L
  2: VM M
  3: Key K
}`, "Root")
	for _, path := range []string{"$.L[1].A", "$.M{\"a\"}.A", "$.K.A"} {
		fm, err := NewFieldMask(desc, path)
		if err != nil {
			t.Fatalf("%s: %v", path, err)
		}
		if !fm.PathInMask(desc, path) {
			t.Errorf("mask built from %s: PathInMask(%s) = false", path, path)
		}
	}
}
