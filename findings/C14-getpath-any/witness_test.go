package fieldmask

// Witness for finding C14-getpath-any (failed obligation fieldmask.FieldMask.GetPath#safety:GetID>field:1): after a
// '*' field token GetPath leaves f nil and then calls f.GetID().

import "testing"

func TestWitnessGetPathAny(t *testing.T) {
	desc := GetDescriptor(baseIDL, "Base")
	fm, err := NewFieldMask(desc, "$.*")
	if err != nil {
		t.Fatal(err)
	}
	defer func() {
		if r := recover(); r != nil {
			t.Errorf("PathInMask(desc, \"$.*\") on the mask \"$.*\": panic: %v", r)
		}
	}()
	if !fm.PathInMask(desc, "$.*") {
		t.Errorf("path $.* must be in the mask built from $.*")
	}
}
