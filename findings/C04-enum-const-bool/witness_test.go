package golang

// Witness for finding C04-enum-const-bool (failed obligation generator/golang.Resolver.onEnum#call-requires:
// call.getIDValue:1:pre1, "the binding handed to getIDValue is not nil"). `true` / `false` are left unbound by the semantic
// pass; every scalar kind filters them before looking the binding up, the enum, list, map and struct kinds did not:
// `enum E {A}  const E X = true` made getIDValue dereference a nil binding (stack trace instead of a diagnostic).

import (
	"testing"

	"github.com/cloudwego/thriftgo/parser"
)

func TestWitnessEnumConstBool(t *testing.T) {
	r := &Resolver{}
	yes := "true"
	v := &parser.ConstValue{Type: parser.ConstType_ConstIdentifier, TypedValue: &parser.ConstTypedValue{Identifier: &yes}}
	defer func() {
		if x := recover(); x != nil {
			t.Errorf("const E X = true: panic instead of a diagnostic: %v", x)
		}
	}()
	if _, err := r.onEnum(&Scope{}, "X", &parser.Type{Name: "E", Category: parser.Category_Enum}, v); err == nil {
		t.Errorf("const E X = true accepted")
	}
}
