package main

// Witness for finding C04-panic-exit-zero (failed obligation main.handlePanic#ensures:1): a panic that reaches main
// is recovered by the deferred handlePanic, which prints the trace and returns, so the process exits with status 0.

import (
	"os"
	"os/exec"
	"testing"
)

func TestWitnessPanicExitZero(t *testing.T) {
	if os.Getenv("GOVC_WITNESS_CHILD") == "1" {
		// what main does: defer handlePanic(); <compiler work that panics>
		func() {
			defer handlePanic()
			panic("boom")
		}()
		return // normal return from main => exit status 0
	}
	cmd := exec.Command(os.Args[0], "-test.run=^TestWitnessPanicExitZero$")
	cmd.Env = append(os.Environ(), "GOVC_WITNESS_CHILD=1")
	err := cmd.Run()
	if err == nil {
		t.Errorf("a recovered panic ended the process with exit status 0")
	}
}
