package semantic

// Witness for finding C05-enum-two-hop (failed obligation semantic.getEnum#ensures: a non-negative include index says
// in which included file the returned enum is defined). getEnum follows a typedef into the include it names and, if
// the typedef there points into a further include, drops the inner index: the caller gets the enum together with the
// index of a file that does not define it. The recorded binding for `CE.A` then points at b.thrift, which has no enum.

import (
	"os"
	"path/filepath"
	"testing"

	"github.com/cloudwego/thriftgo/parser"
)

func TestWitnessEnumTwoHop(t *testing.T) {
	dir := t.TempDir()
	write := func(name, src string) {
		if err := os.WriteFile(filepath.Join(dir, name), []byte(src), 0o644); err != nil {
			t.Fatal(err)
		}
	}
	write("a.thrift", "enum E { A = 1 }\n")
	write("b.thrift", "include \"a.thrift\"\ntypedef a.E BE\n")
	write("c.thrift", "include \"b.thrift\"\ntypedef b.BE CE\nconst CE X = CE.A\n")
	ast, err := parser.ParseFile(filepath.Join(dir, "c.thrift"), nil, true)
	if err != nil {
		t.Fatal(err)
	}
	if err := ResolveSymbols(ast); err != nil {
		t.Fatalf("accepted IDL (typedef chain across two includes) rejected: %v", err)
	}
	x := ast.Constants[0].Value.Extra
	if x == nil || !x.IsEnum {
		t.Fatalf("CE.A not bound to an enum value: %+v", x)
	}
	target := ast
	if x.Index >= 0 {
		target = ast.Includes[x.Index].Reference
	}
	for _, e := range target.Enums {
		for _, v := range e.Values {
			if v.Name == x.Name {
				return
			}
		}
	}
	t.Errorf("binding %+v points at %s, which defines no enum with a value %q", *x, filepath.Base(target.Filename), x.Name)
}
