package golang

// Witness for finding C20-naming-style-initialisms (failed obligation generator/golang.NewCodeUtils#ensures: the
// documented defaults, ignore_initialisms = false). A new CodeUtils kept doInitialisms at the zero value; the first
// naming_style option pushed that into the style and switched the initialism correction off: naming_style=thriftgo
// (the default style) changed GetURL into GetUrl.

import (
	"testing"

	"github.com/cloudwego/thriftgo/generator/backend"
)

func TestWitnessNamingStyleInitialisms(t *testing.T) {
	cu := NewCodeUtils(backend.DummyLogFunc())
	a, _ := cu.Identify("get_url")
	cu2 := NewCodeUtils(backend.DummyLogFunc())
	if err := cu2.HandleOptions([]string{"naming_style=thriftgo"}); err != nil {
		t.Fatal(err)
	}
	b, _ := cu2.Identify("get_url")
	if a != "GetURL" || b != a {
		t.Errorf("get_url: default options give %s, naming_style=thriftgo (the default style) gives %s", a, b)
	}
	// a fresh instance is not influenced by what an earlier one selected
	cu3 := NewCodeUtils(backend.DummyLogFunc())
	cu3.HandleOptions([]string{"ignore_initialisms"})
	cu4 := NewCodeUtils(backend.DummyLogFunc())
	if c, _ := cu4.Identify("get_url"); c != "GetURL" {
		t.Errorf("get_url after an earlier instance used ignore_initialisms: %s", c)
	}
}
