package args

// Witness for finding C20-nested-template-not-adapted (failed obligation args.Arguments.checkOptions#assert:return:1):
// with enable_nested_struct and an explicit template other than slim / raw_struct, checkOptions announces that it adapts
// the template to "slim" but assigns to the loop variable's copy, so the option list it returns still carries the old
// template; the guard uses || where && is meant, so the same warning is printed for slim and raw_struct as well.

import (
	"testing"

	"github.com/cloudwego/thriftgo/plugin"
)

func TestWitnessNestedTemplateNotAdapted(t *testing.T) {
	a := &Arguments{}
	opts, err := a.checkOptions([]plugin.Option{{Name: "enable_nested_struct"}, {Name: "template", Desc: "default"}})
	if err != nil {
		t.Fatal(err)
	}
	for _, o := range opts {
		if o.Name == "template" && o.Desc != "slim" && o.Desc != "raw_struct" {
			t.Errorf("enable_nested_struct with template=default: the returned options still say template=%s (documented: nested structs force the slim template)", o.Desc)
		}
	}
}

func TestWitnessNestedKeepsRawStruct(t *testing.T) {
	a := &Arguments{}
	opts, err := a.checkOptions([]plugin.Option{{Name: "enable_nested_struct"}, {Name: "template", Desc: "raw_struct"}})
	if err != nil {
		t.Fatal(err)
	}
	for _, o := range opts {
		if o.Name == "template" && o.Desc != "raw_struct" {
			t.Errorf("enable_nested_struct with template=raw_struct: template changed to %s (nested structs are available under raw_struct)", o.Desc)
		}
	}
}
