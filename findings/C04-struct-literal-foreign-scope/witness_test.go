package main

// Witness for finding C04-struct-literal-foreign-scope (failed obligation generator/golang.Resolver.onStructLike#
// call-requires:call.resolveConst: the binding of a field value must be valid in the scope it is resolved in).
// The value of a field in a struct literal is resolved in the scope of the file that DEFINES the struct, although its
// identifiers were bound (include index, local names) relative to the file that contains the literal. With the struct
// in b.thrift and the literal in a.thrift, `const b.S X = {"f": c.K}` indexes b's (empty) include list with a's include
// index: index out of range, stack trace; `{"f": L}` (a local constant of a.thrift) is looked up among b's globals.

import (
	"os"
	"path/filepath"
	"testing"

	"github.com/cloudwego/thriftgo/sdk"
)

func TestWitnessStructLiteralForeignScope(t *testing.T) {
	dir := t.TempDir()
	write := func(name, src string) {
		if err := os.WriteFile(filepath.Join(dir, name), []byte(src), 0o644); err != nil {
			t.Fatal(err)
		}
	}
	write("b.thrift", "namespace go b\nstruct S { 1: i32 f }\n")
	write("c.thrift", "namespace go c\nconst i32 K = 7\n")
	write("a.thrift", "namespace go a\ninclude \"b.thrift\"\ninclude \"c.thrift\"\nconst i32 L = 5\nconst b.S X = {\"f\": c.K}\nconst b.S Y = {\"f\": L}\n")
	err := sdk.InvokeThriftgo(nil, "thriftgo", "-r", "-g", "go", "-o", filepath.Join(dir, "out"), filepath.Join(dir, "a.thrift"))
	if err != nil {
		t.Errorf("valid IDL (struct literal for an included struct, field values naming constants of the literal's own file and of another include) failed: %.300v", err)
	}
}
