package fieldmask

// Witnesses for the C14 tokenizer findings (failed obligations on the unrepaired tree):
//   fieldmask.pathValue.Int32#safety:call.panic:1            field id literal outside int32
//   fieldmask.newPathToken#safety:call.panic:1               integer literal outside int (strconv.Atoi error)
//   fieldmask.newPathToken#safety:call.panic:2               error token has no case in newPathToken
//   fieldmask.pathIterator.str#invariant-step:loop1:inv1     trailing backslash steps past the end, then slices
// Each path string below is handed to the public constructor / query; none of them may panic.

import "testing"

func TestWitnessTokenizerPanics(t *testing.T) {
	desc := GetDescriptor(baseIDL, "Base")
	for _, p := range []string{
		"$.99999999999",
		"$.99999999999999999999999999",
		"$.Extra{\"abc}",
		"$.Extra{\"a\\",
		"\"",
		"\"\\",
	} {
		func() {
			defer func() {
				if r := recover(); r != nil {
					t.Errorf("NewFieldMask(%q): panic: %v", p, r)
				}
			}()
			_, _ = NewFieldMask(desc, p)
		}()
		func() {
			defer func() {
				if r := recover(); r != nil {
					t.Errorf("PathInMask(%q): panic: %v", p, r)
				}
			}()
			fm, err := NewFieldMask(desc, "$.Addr")
			if err != nil {
				t.Fatal(err)
			}
			fm.PathInMask(desc, p)
		}()
	}
}
