package semantic

// Witness for finding C05-arg-default-unbound (failed obligations semantic.resolver.ResolveFunction#invariant-step:
// loop1/loop2: defaults of function arguments and exceptions are bound like any other constant value).
// ResolveFunction resolves the types of arguments and exceptions but never their default values, so an identifier
// used as an argument default stays unbound (Extra == nil) and the Go backend dereferences nil
// (`thriftgo -g go` prints a stack trace for `void f(1: i32 a = X)`).

import (
	"testing"

	"github.com/cloudwego/thriftgo/parser"
)

func TestWitnessArgDefaultUnbound(t *testing.T) {
	ast, err := parser.ParseString("a.thrift", `
const i32 X = 7
enum E { A = 1 }
service S {
  void f(1: i32 a = X, 2: E e = E.A)
}
`)
	if err != nil {
		t.Fatal(err)
	}
	if err := ResolveSymbols(ast); err != nil {
		t.Fatal(err)
	}
	for _, arg := range ast.Services[0].Functions[0].Arguments {
		if arg.Default == nil {
			t.Fatalf("argument %s: default value lost", arg.Name)
		}
		if arg.Default.Type == parser.ConstType_ConstIdentifier && arg.Default.Extra == nil {
			t.Errorf("argument %s: identifier %q used as default value is not bound (Extra == nil) after ResolveSymbols succeeded", arg.Name, arg.Default.TypedValue.GetIdentifier())
		}
	}
}
