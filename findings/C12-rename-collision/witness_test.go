package generator

// Witness for finding C12-rename-collision (failed obligation generator.FileManager.Feed#invariant-step:loop1:inv1.10,
// the conjunct index[*files[i].Name] == i of the representation invariant): the name chosen for a conflicting file,
// <stem>_<n><ext>, is not checked against names that were submitted independently, so two output files get the
// same name.

import (
	"testing"

	"github.com/cloudwego/thriftgo/generator/backend"
	"github.com/cloudwego/thriftgo/plugin"
)

func TestWitnessRenameCollision(t *testing.T) {
	s := func(x string) *string { return &x }
	fm := NewFileManager(backend.DummyLogFunc())
	err := fm.Feed("w", []*plugin.Generated{
		{Name: s("a_1.go"), Content: "independent"},
		{Name: s("a.go"), Content: "first"},
		{Name: s("a.go"), Content: "second"},
	})
	if err != nil {
		t.Fatal(err)
	}
	res := fm.BuildResponse()
	seen := map[string]string{}
	for _, c := range res.Contents {
		if prev, dup := seen[c.GetName()]; dup {
			t.Errorf("two output files are named %q (contents %q and %q)", c.GetName(), prev, c.Content)
		}
		seen[c.GetName()] = c.Content
	}
	if len(res.Contents) != 3 {
		t.Errorf("expected 3 distinct files, got %d", len(res.Contents))
	}
}
