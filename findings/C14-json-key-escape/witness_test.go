package fieldmask

// Witness for finding C14-json-key-escape: string map keys are written into the JSON form with strconv.Quote, which uses
// Go escapes (\x01, \a) that JSON does not have: the text is not valid JSON and the mask cannot be read back.

import (
	"encoding/json"
	"testing"
)

func TestWitnessJSONKeyEscape(t *testing.T) {
	desc := GetDescriptor(baseIDL, "MetaInfo")
	fm, err := NewFieldMask(desc, "$.F1{\"\\u0001\"}")
	if err != nil {
		t.Skipf("path syntax: %v", err)
	}
	data, err := fm.MarshalJSON()
	if err != nil {
		t.Fatal(err)
	}
	if !json.Valid(data) {
		t.Errorf("MarshalJSON produced invalid JSON: %s", data)
	}
	var back FieldMask
	if err := back.UnmarshalJSON(data); err != nil {
		t.Errorf("the JSON form cannot be read back: %v", err)
	}
}
