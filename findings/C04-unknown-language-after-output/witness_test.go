package main

// Witness for finding C04-unknown-language-after-output: targets are generated and persisted one after the other, so an
// unknown language later on the command line is diagnosed only after the output of the earlier targets has been written:
// `-g go -g nosuch` exits with an error AND leaves generated files.

import (
	"os"
	"path/filepath"
	"testing"

	"github.com/cloudwego/thriftgo/sdk"
)

func TestWitnessUnknownLanguageAfterOutput(t *testing.T) {
	dir := t.TempDir()
	idl := filepath.Join(dir, "a.thrift")
	if err := os.WriteFile(idl, []byte("namespace go a\nstruct S { 1: i32 f }\n"), 0o644); err != nil {
		t.Fatal(err)
	}
	out := filepath.Join(dir, "out")
	err := sdk.InvokeThriftgo(nil, "thriftgo", "-g", "go", "-g", "nosuch", "-o", out, idl)
	if err == nil {
		t.Fatal("unknown language accepted")
	}
	var files []string
	filepath.Walk(out, func(p string, fi os.FileInfo, e error) error {
		if e == nil && !fi.IsDir() {
			files = append(files, p)
		}
		return nil
	})
	if len(files) > 0 {
		t.Errorf("invalid command line (%v) but generated files were written: %v", err, files)
	}
}
