package args

// Witness for finding C20-nested-bogus-template (failed obligation args.Arguments.checkOptions#ensures: an option list the
// backend rejects is rejected here as well). checkOptions ignored the error of its trial HandleOptions run; with
// enable_nested_struct BEFORE an unknown template the trial stopped at the template, nested structs were already on, and
// the unknown template was rewritten to slim: `-g go:enable_nested_struct,template=bogus` was accepted.

import (
	"testing"

	"github.com/cloudwego/thriftgo/plugin"
)

func TestWitnessNestedBogusTemplate(t *testing.T) {
	a := &Arguments{}
	opts, err := a.checkOptions([]plugin.Option{{Name: "enable_nested_struct"}, {Name: "template", Desc: "bogus"}})
	if err == nil {
		t.Errorf("enable_nested_struct,template=bogus accepted; options returned: %+v", opts)
	}
}
