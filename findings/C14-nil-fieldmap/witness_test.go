package fieldmask

// Witness for finding C14-nil-fieldmap (obligations fieldmask.fieldMap.Get#safety:field:1/field:2):
// the solver model has self == nil; FieldMask.Field calls self.fdMask.Get without checking fdMask.

import "testing"

func TestWitnessNilFieldMap(t *testing.T) {
	defer func() {
		if r := recover(); r != nil {
			t.Errorf("Field(1) on a mask decoded from a List document: panic: %v", r)
		}
	}()
	fm := &FieldMask{}
	if err := fm.UnmarshalJSON([]byte(`{"path":"$","type":"List","children":[{"path":1,"type":"Scalar"}]}`)); err != nil {
		t.Fatal("document rejected:", err)
	}
	fm.Field(1)
}
