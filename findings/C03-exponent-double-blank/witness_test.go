package parser

// Witness for finding C03-exponent-double-blank: the capture of a double with an exponent ends with the blanks that
// follow the exponent's digits (IntConstant <- Skip <...> Indent*, inside the DoubleConstant capture), ParseFloat fails on
// "1e5 " and its error is ignored: `const double X = 1e5 // c` was parsed as 0.

import "testing"

func TestWitnessExponentDoubleBlank(t *testing.T) {
	for _, c := range []struct {
		src  string
		want float64
	}{{"1e5 // c", 1e5}, {"1.5e3\t", 1.5e3}, {"2E2   ", 200}, {"1e5", 1e5}} {
		ast, err := ParseString("a.thrift", "const double X = "+c.src+"\n")
		if err != nil {
			t.Fatal(err)
		}
		if got := ast.Constants[0].Value.TypedValue.GetDouble(); got != c.want {
			t.Errorf("const double X = %q: parsed as %v", c.src, got)
		}
	}
}
