package main

// Witness for finding C07-stale-backend-error: the Go backend keeps the error of a run in a field that the next run in the
// same process never clears, so the outcome of a compilation depends on previous runs (SDK use, several -g targets): after
// a run with an unknown template, a valid run reports the same "unknown template name" error.

import (
	"os"
	"path/filepath"
	"testing"

	"github.com/cloudwego/thriftgo/sdk"
)

func TestWitnessStaleBackendError(t *testing.T) {
	dir := t.TempDir()
	idl := filepath.Join(dir, "a.thrift")
	if err := os.WriteFile(idl, []byte("namespace go a\nstruct S { 1: i32 f }\n"), 0o644); err != nil {
		t.Fatal(err)
	}
	if err := sdk.InvokeThriftgo(nil, "thriftgo", "-g", "go:template=nosuch", "-o", filepath.Join(dir, "o1"), idl); err == nil {
		t.Fatal("unknown template accepted")
	}
	if err := sdk.InvokeThriftgo(nil, "thriftgo", "-g", "go", "-o", filepath.Join(dir, "o2"), idl); err != nil {
		t.Errorf("a valid run after a failed one in the same process fails: %v", err)
	}
}
