package fastgo

// Witness for finding C07-fastgo-imports-order (failed obligations generator/fastgo.codewriter.Imports#maploop:1:var:pp0
// and :var:pp1 #commute: the two groups are appended in map iteration order): the import block of a generated k-*.go
// file differs from run to run (visible with -g fastgo:no_fmt; go/format hides it otherwise).

import "testing"

func TestWitnessImportsOrder(t *testing.T) {
	first := ""
	for i := 0; i < 64; i++ {
		w := newCodewriter()
		for _, p := range []string{"fmt", "unsafe", "bytes", "strings", "github.com/cloudwego/gopkg/protocol/thrift", "github.com/cloudwego/gopkg/unsafex"} {
			w.UsePkg(p, "")
		}
		s := w.Imports()
		if i == 0 {
			first = s
		} else if s != first {
			t.Fatalf("import block differs between two calls on equal inputs:\n%s\nvs\n%s", first, s)
		}
	}
}
