package fieldmask

// Witness for finding C14-neg-field-id (obligations fieldmask.fieldMap.Get#safety:index:1 and
// fieldmask.fieldMap.SetIfNotExist#safety:index:1): the solver model has f < 0, for which `f <= _MaxFieldIDHead`
// selects the head array and self.head[f] is out of range.

import "testing"

func mustNotPanic(t *testing.T, name string, f func()) {
	t.Helper()
	defer func() {
		if r := recover(); r != nil {
			t.Errorf("%s: panic: %v", name, r)
		}
	}()
	f()
}

func TestWitnessNegFieldID(t *testing.T) {
	mustNotPanic(t, "fieldMap.Get(-1)", func() {
		m := makeFieldMaskMap()
		m.Get(-1)
	})
	mustNotPanic(t, "fieldMap.SetIfNotExist(-1)", func() {
		m := makeFieldMaskMap()
		m.SetIfNotExist(-1, FtScalar, false)
	})
	mustNotPanic(t, "FieldMask.Field(-1) on a struct mask", func() {
		fm := &FieldMask{typ: FtStruct}
		m := makeFieldMaskMap()
		fm.fdMask = &m
		fm.Field(-1)
	})
	mustNotPanic(t, "UnmarshalJSON with path -1", func() {
		fm := &FieldMask{}
		_ = fm.UnmarshalJSON([]byte(`{"path":"$","type":"Struct","children":[{"path":-1,"type":"Scalar"}]}`))
	})
}
