package parser

// Witness for finding C03-exponent-double (failed obligation parser.parser.pegText#ensures:3: the text returned is the
// text of the FIRST capture in document order). pegText looked into a node's children before looking at the node
// itself; the capture of a DoubleConstant contains the capture of its exponent's IntConstant, so the literal text of
// `1e5` was "5" and the constant was parsed as 5.

import "testing"

func TestWitnessExponentDouble(t *testing.T) {
	for _, c := range []struct {
		src  string
		want float64
	}{{"1e5", 1e5}, {"1.5e10", 1.5e10}, {"2.5", 2.5}, {"-3.25E-2", -3.25e-2}} {
		ast, err := ParseString("a.thrift", "const double X = "+c.src+"\n")
		if err != nil {
			t.Fatal(err)
		}
		got := ast.Constants[0].Value.TypedValue.GetDouble()
		if got != c.want {
			t.Errorf("const double X = %s: parsed as %v", c.src, got)
		}
	}
}
