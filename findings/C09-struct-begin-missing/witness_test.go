package unknown

// Witness for finding C09-struct-begin-missing (failed obligation generator/golang/extension/unknown.write#call-requires:
// call.WriteStructEnd: struct begin/end events are balanced). write re-emits a nested struct as fields, a stop and
// WriteStructEnd, but never WriteStructBegin. The binary protocol ignores both; a protocol that keeps a stack of field ids
// (compact) pops an empty one: index out of range [-1] in TCompactProtocol.WriteStructEnd.

import (
	"context"
	"reflect"
	"testing"
)

type evProt struct {
	depth int
	bad   bool
}

func (p *evProt) WriteStructBegin(ctx context.Context, name string) error { p.depth++; return nil }
func (p *evProt) WriteStructEnd(ctx context.Context) error {
	p.depth--
	if p.depth < 0 {
		p.bad = true
	}
	return nil
}
func (p *evProt) WriteFieldBegin(ctx context.Context, name string, t int, id int16) error { return nil }
func (p *evProt) WriteFieldEnd(ctx context.Context) error                               { return nil }
func (p *evProt) WriteFieldStop(ctx context.Context) error                              { return nil }
func (p *evProt) WriteByte(ctx context.Context, v int8) error                           { return nil }

func TestWitnessStructBeginMissing(t *testing.T) {
	p := &evProt{}
	oprot := &protocol{impl: reflect.ValueOf(p)}
	// a struct value { 1: byte = 7 } as stored by Append
	body := []byte{TByte, 0, 1, 7, TStop}
	if _, err := write(oprot, "", TStruct, 1, body); err != nil {
		t.Fatal(err)
	}
	if p.bad || p.depth != 0 {
		t.Errorf("re-writing an unknown struct field: WriteStructEnd without a matching WriteStructBegin (depth after the call: %d)", p.depth)
	}
}
