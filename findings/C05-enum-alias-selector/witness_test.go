package semantic

// Witness for finding C05-enum-alias-selector (failed obligation semantic.resolver.ResolveConstValue#invariant...:
// the recorded binding must denote the enum value it names). For `typedef E MyE  const MyE X = MyE.A` the resolver
// records Extra{IsEnum, Index: -1, Name: "A", Sel: "MyE"}: consumers look the enum up by Sel in the indexed file
// (generator/golang Resolver.getIDValue: g.ast.GetEnum(extra.Sel)), and there is no enum called MyE.

import (
	"testing"

	"github.com/cloudwego/thriftgo/parser"
)

func TestWitnessEnumAliasSelector(t *testing.T) {
	ast, err := parser.ParseString("a.thrift", `
enum E { A = 1 }
typedef E MyE
const MyE X = MyE.A
`)
	if err != nil {
		t.Fatal(err)
	}
	if err := ResolveSymbols(ast); err != nil {
		t.Fatal(err)
	}
	x := ast.Constants[0].Value.Extra
	if x == nil || !x.IsEnum {
		t.Fatalf("MyE.A not bound to an enum value: %+v", x)
	}
	e, ok := ast.GetEnum(x.Sel)
	if !ok {
		t.Fatalf("binding %+v: the file has no enum named %q", *x, x.Sel)
	}
	for _, v := range e.Values {
		if v.Name == x.Name {
			return
		}
	}
	t.Errorf("binding %+v: enum %q has no value %q", *x, x.Sel, x.Name)
}
