package semantic

// Witness for finding C04-union-two-defaults (failed obligation semantic.checker.CheckUnions#invariant-step:loop1.1:inv2:
// the flag hasDefault is never set, so the "second default value in a union" rule can never fire).

import (
	"testing"

	"github.com/cloudwego/thriftgo/parser"
)

func TestWitnessUnionTwoDefaults(t *testing.T) {
	ast, err := parser.ParseString("u.thrift", `
union U {
  1: i32 a = 1
  2: i32 b = 2
}`)
	if err != nil {
		t.Fatal(err)
	}
	_, err = NewChecker(Options{}).CheckAll(ast)
	if err == nil {
		t.Errorf("a union with two default values was accepted")
	}
}
