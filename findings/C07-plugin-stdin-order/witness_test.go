package parser

// Witness for known finding C07-plugin-stdin-order (obligation parser.Thrift.FastAppend#maploop:1#commute):
// Name2Category is encoded in map iteration order, so the bytes sent to a plugin differ between runs.

import (
	"bytes"
	"testing"
)

func TestWitnessPluginStdinOrder(t *testing.T) {
	ast := &Thrift{Filename: "a.thrift", Name2Category: map[string]Category{}}
	for _, n := range []string{"A", "B", "C", "D", "E", "F", "G", "H"} {
		ast.Name2Category[n] = Category_Struct
	}
	first := ast.FastAppend(nil)
	for i := 0; i < 64; i++ {
		if b := ast.FastAppend(nil); !bytes.Equal(first, b) {
			t.Fatalf("two encodings of the same AST differ (run %d)", i)
		}
	}
}
