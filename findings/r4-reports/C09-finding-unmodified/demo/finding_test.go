package demo

import (
	"reflect"
	"testing"

	"github.com/apache/thrift/lib/go/thrift"

	ext "example.com/demo/gen-ext/evo" // old schema, generated with keep_unknown_fields
	neu "example.com/demo/gen-new/evo" // new schema
)

func encode(obj thrift.TStruct) ([]byte, error) {
	buf := thrift.NewTMemoryBuffer()
	err := obj.Write(thrift.NewTBinaryProtocolTransport(buf))
	return buf.Bytes(), err
}

func decode(obj thrift.TStruct, data []byte) error {
	buf := thrift.NewTMemoryBuffer()
	buf.Write(data)
	return obj.Read(thrift.NewTBinaryProtocolTransport(buf))
}

// Compatible edit "add union member": the old schema (keep_unknown_fields) reads a value that uses the
// new member, reports that it carries unknown fields, but cannot write it back.
func TestUnionNewMemberThroughOldSchema(t *testing.T) {
	s := "hexagon"
	orig := &neu.Shape{Polygon: &s}
	data, err := encode(orig)
	if err != nil {
		t.Fatal(err)
	}
	o := ext.NewShape()
	if err := decode(o, data); err != nil {
		t.Fatal(err)
	}
	if !o.CarryingUnknownFields() {
		t.Fatal("old union does not report the unknown member")
	}
	data, err = encode(o)
	if err != nil {
		t.Fatalf("old schema cannot re-write the union it just read: %v", err)
	}
	back := neu.NewShape()
	if err := decode(back, data); err != nil {
		t.Fatal(err)
	}
	if !reflect.DeepEqual(orig, back) {
		t.Fatalf("want %v got %v", orig, back)
	}
}

// Reading twice into the same object accumulates the unknown fields: the re-written bytes carry the
// added field twice.
func TestReuseAccumulatesUnknownFields(t *testing.T) {
	orig := &neu.Rec{ID: 1, Extra: []int32{1, 2, 3}}
	data, _ := encode(orig)
	o := ext.NewRec()
	for i := 0; i < 2; i++ {
		if err := decode(o, data); err != nil {
			t.Fatal(err)
		}
	}
	out, err := encode(o)
	if err != nil {
		t.Fatal(err)
	}
	if len(out) != len(data) {
		t.Fatalf("re-written bytes have length %d, the original %d: the unknown field is duplicated", len(out), len(data))
	}
}
