namespace go evo

union Shape {
    1: i32 circle
    2: double square
}

struct Rec {
    1: i32 id
}
