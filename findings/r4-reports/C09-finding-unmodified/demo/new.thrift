namespace go evo

union Shape {
    1: i32 circle
    2: double square
    3: string polygon
}

struct Rec {
    1: i32 id
    2: optional list<i32> extra
}
