#!/bin/bash
# Usage: run.sh [path-to-thriftgo-clone]   (default /tmp/seed4-C09)
#
# gen-ext/ (old.thrift, generated with keep_unknown_fields) and gen-new/ (new.thrift) were generated
# with thriftgo built from the unmodified tree (see regen.sh); the change under test is in the runtime
# package generator/golang/extension/unknown, which the generated code imports from the clone through
# a replace directive.  The test is run in a scratch copy so that nothing here is modified.
set -e
export GOFLAGS=-mod=mod GOPROXY=off GOSUMDB=off GOTOOLCHAIN=local
CLONE=${1:-/tmp/seed4-C09}
HERE=$(cd "$(dirname "$0")" && pwd)
mkdir -p /tmp/C09r4-scratch
WORK=$(mktemp -d /tmp/C09r4-scratch/work.XXXXXX)
trap 'rm -rf "$WORK"' EXIT
cp -r "$HERE/gen-ext" "$HERE/gen-new" "$HERE/finding_test.go" "$WORK/"
cd "$WORK"
cat > go.mod <<MOD
module example.com/demo

go 1.17

require github.com/apache/thrift v0.13.0

require github.com/cloudwego/thriftgo v0.0.0

replace github.com/cloudwego/thriftgo => $CLONE
MOD
go test -vet=off -count=1 .
