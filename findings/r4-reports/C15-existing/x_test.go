package zz_c15demo_test

// Probe for two behaviours of the UNMODIFIED tree (not one of the two seeded changes).
// Generate with:
//   thriftgo -g go:with_reflection,no_default_serdes,package_prefix=github.com/cloudwego/thriftgo/zz_c15demo -r -o <clone>/zz_c15demo idl/main.thrift
// copy this file to <clone>/zz_c15demo/ and run  go test -vet=off -count=1 -v ./zz_c15demo/

import (
	"testing"

	m "github.com/cloudwego/thriftgo/zz_c15demo/t3/top"
)

func TestX(t *testing.T) {
	fd := m.GetFileDescriptorForMain()
	t.Logf("includes=%v", fd.Includes)
	d := m.NewM().GetDescriptor()
	for _, n := range []string{"a", "b"} {
		sd, err := d.GetFieldByName(n).GetType().GetStructDescriptor()
		t.Logf("field %s: %v %v", n, sd != nil, err)
	}
	for i := 0; i < 5; i++ {
		t.Logf("v default as string: %s", d.GetFieldByName("v").GetDefaultValue().GetValueAsString())
	}
}
