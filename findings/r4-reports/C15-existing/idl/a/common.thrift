namespace go t3.a.common
struct A { 1: string x }
const i32 X = 1
