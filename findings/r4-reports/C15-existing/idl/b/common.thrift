namespace go t3.b.common
struct B { 1: string y }
const i32 X = 2
