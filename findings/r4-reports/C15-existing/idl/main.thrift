namespace go t3.top
include "a/common.thrift"
include "b/common.thrift"
struct M {
  1: common.A a
  2: common.B b
  3: i32 v = X
}
const i32 X = 3
