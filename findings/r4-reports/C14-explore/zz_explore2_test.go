package fieldmask

import (
	"fmt"
	"testing"
)

const exIDL = `
namespace go ex

struct Val {
	1: string A,
	2: string B,
}

struct S {
	1: Val V,
	2: list<Val> L,
	6: map<string, Val> SM,
	7: map<i32, Val> IM,
}
`

func try(name string, f func()) {
	defer func() {
		if r := recover(); r != nil {
			fmt.Println(name, "PANIC:", r)
		}
	}()
	f()
}

func TestExplore(t *testing.T) {
	st := GetDescriptor(exIDL, "S")
	try("starkey", func() {
		fm, err := NewFieldMask(st, `$.SM{"*"}.A`)
		fmt.Println("starkey new:", err)
		j, _ := fm.MarshalJSON()
		fmt.Println(string(j))
		nn := &FieldMask{}
		fmt.Println(" unmarshal:", nn.UnmarshalJSON(j))
		a, _ := fm.Field(6)
		b, _ := nn.Field(6)
		_, ok1 := a.Str("other")
		_, ok2 := b.Str("other")
		fmt.Println(" Str(other):", ok1, ok2, "All:", a.All(), b.All())
	})
	try("comma", func() {
		fm, err := NewFieldMask(st, `$.L[,]`)
		fmt.Println("comma new:", err)
		if err != nil {
			return
		}
		j, _ := fm.MarshalJSON()
		fmt.Println(string(j))
		nn := &FieldMask{}
		fmt.Println(" unmarshal:", nn.UnmarshalJSON(j))
		a, _ := fm.Field(2)
		b, _ := nn.Field(2)
		_, ok1 := a.Int(0)
		_, ok2 := b.Int(0)
		fmt.Println(" Int(0):", ok1, ok2, "All:", a.All(), b.All())
	})
	try("blackroundtrip", func() {
		fm, err := Options{BlackListMode: true}.NewFieldMask(st, `$.V.A`, `$.V`)
		fmt.Println("blackrt new:", err)
		if err != nil {
			return
		}
		j, _ := fm.MarshalJSON()
		fmt.Println(string(j))
		nn := &FieldMask{}
		fmt.Println(" unmarshal:", nn.UnmarshalJSON(j))
		_, ok1 := fm.Field(1)
		_, ok2 := nn.Field(1)
		fmt.Println(" Field(1):", ok1, ok2)
	})
	try("multikey", func() {
		fm, err := NewFieldMask(st, `$.IM{1}.A`, `$.IM{2}.B`)
		fmt.Println("multikey new:", err)
		fmt.Println(" {1,2}.B:", fm.PathInMask(st, `$.IM{1,2}.B`), " {2,1}.B:", fm.PathInMask(st, `$.IM{2,1}.B`), " {1}.B:", fm.PathInMask(st, `$.IM{1}.B`))
	})
	try("twostar", func() {
		_, err := NewFieldMask(st, `$.*`, `$.*`)
		fmt.Println("twostar new:", err)
		_, err = NewFieldMask(st, `$.L[*]`, `$.L[*]`)
		fmt.Println("twostar list new:", err)
	})
	try("numfield", func() {
		fm, err := NewFieldMask(st, `$.1.2`)
		fmt.Println("numfield new:", err)
		fmt.Println(fm.PathInMask(st, "$.V.B"), fm.PathInMask(st, "$.1.2"), fm.PathInMask(st, "$.V.A"))
	})
	try("junk", func() {
		for _, p := range []string{"$.L[1", "$.L[1}", "$.SM{\"a\"", "$.SM{\"a", "$.V.", "$.", "$", "$$", "$.V$.A", "$.L[1][2]", "$.L[1]]", "$.IM{99999999999999999999}", "$.99999999999", "$.L[1,,2]", "$.L[1 ,2]", "$.V .A"} {
			func() {
				defer func() {
					if r := recover(); r != nil {
						fmt.Println(" PANIC", p, r)
					}
				}()
				fm, err := NewFieldMask(st, p)
				ok := err == nil
				fmt.Printf(" %q accepted=%v\n", p, ok)
				if ok {
					fm.PathInMask(st, p)
					j, _ := fm.MarshalJSON()
					nn := &FieldMask{}
					if e := nn.UnmarshalJSON(j); e != nil {
						fmt.Println("   unmarshal err", e)
					}
					j2, _ := nn.MarshalJSON()
					if string(j) != string(j2) {
						fmt.Println("   JSON differs", string(j), string(j2))
					}
				}
			}()
		}
	})
}
