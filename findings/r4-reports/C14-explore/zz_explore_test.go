package fieldmask

import (
	"fmt"
	"testing"
)

const exIDL = `
namespace go ex

struct Val {
	1: string A,
	2: string B,
}
typedef Val Key
typedef Key Key2
typedef list<Val> VL
typedef map<string,Val> VM
typedef i32 MyInt
typedef MyInt MyInt2

struct Inner {
	1: Val V,
	2: string S,
}

struct S {
	1: Inner In,
	2: VL L,
	3: VM M,
	4: Key2 K2,
	5: map<MyInt2, Val> IM,
	6: map<string, Val> SM,
	7: Key K1,
	8: list<Val> PL,
}
`

func try(name string, f func()) {
	defer func() {
		if r := recover(); r != nil {
			fmt.Println(name, "PANIC:", r)
		}
	}()
	f()
}

func TestExplore(t *testing.T) {
	st := GetDescriptor(exIDL, "S")
	try("star-desc", func() {
		fm, err := NewFieldMask(st, "$.*.V")
		fmt.Println("star-desc new:", err)
		if err == nil {
			fmt.Println(" in $.*.V:", fm.PathInMask(st, "$.*.V"), " in $.In.V:", fm.PathInMask(st, "$.In.V"))
		}
		fm, err = NewFieldMask(st, "$.*.In")
		fmt.Println("star-desc2 new:", err)
		if err == nil {
			j, _ := fm.MarshalJSON()
			fmt.Println(string(j))
		}
	})
	try("typedef-list", func() {
		fm, err := NewFieldMask(st, "$.L[1].A")
		fmt.Println("typedef-list new:", err)
		if err == nil {
			fmt.Println(" in:", fm.PathInMask(st, "$.L[1].A"), fm.PathInMask(st, "$.L[1]"), fm.PathInMask(st, "$.L"))
		}
		fm, err = NewFieldMask(st, "$.PL[1].A")
		fmt.Println("plain-list new:", err)
		if err == nil {
			fmt.Println(" in:", fm.PathInMask(st, "$.PL[1].A"), fm.PathInMask(st, "$.PL[1]"))
		}
	})
	try("typedef-map", func() {
		fm, err := NewFieldMask(st, `$.M{"a"}.A`)
		fmt.Println("typedef-map new:", err)
		if err == nil {
			fmt.Println(" in:", fm.PathInMask(st, `$.M{"a"}.A`))
		}
	})
	try("typedef2-struct", func() {
		fm, err := NewFieldMask(st, `$.K2.A`)
		fmt.Println("typedef2 new:", err)
		if err == nil {
			fmt.Println(" in:", fm.PathInMask(st, `$.K2.A`))
			s, ok := fm.Field(4)
			fmt.Println(" Field(4):", s != nil, ok)
		}
		fm, err = NewFieldMask(st, `$.K1.A`)
		fmt.Println("typedef1 new:", err)
		if err == nil {
			fmt.Println(" in:", fm.PathInMask(st, `$.K1.A`), fm.PathInMask(st, `$.K1.B`))
		}
	})
	try("typedef2-intkey", func() {
		fm, err := NewFieldMask(st, `$.IM{1}.A`)
		fmt.Println("typedef2-intkey new:", err)
		if err == nil {
			fmt.Println(" in:", fm.PathInMask(st, `$.IM{1}.A`))
		}
	})
	try("utf8", func() {
		fm, err := NewFieldMask(st, `$.SM{"\xff"}.A`)
		fmt.Println("utf8 new:", err)
		if err == nil {
			j, _ := fm.MarshalJSON()
			fmt.Println(string(j))
			nn := &FieldMask{}
			fmt.Println(" unmarshal:", nn.UnmarshalJSON(j))
			a, _ := fm.Field(6)
			b, _ := nn.Field(6)
			_, ok1 := a.Str("\xff")
			_, ok2 := b.Str("\xff")
			fmt.Println(" Str(\\xff):", ok1, ok2)
		}
	})
	try("backslash", func() {
		fm, err := NewFieldMask(st, `$.SM{"a\\"}.A`)
		fmt.Println("backslash new:", err)
		if err == nil {
			a, _ := fm.Field(6)
			_, ok1 := a.Str(`a\`)
			fmt.Println(" Str:", ok1)
		}
	})
	try("empty", func() {
		_, err := NewFieldMask(st, "", "$.In")
		fmt.Println("empty first:", err)
		fm, err := NewFieldMask(st, "$.In", "")
		fmt.Println("empty last:", err)
		if err == nil {
			_, ok := fm.Field(2)
			fmt.Println(" Field(2):", ok)
		}
	})
	try("foreach", func() {
		fm, _ := NewFieldMask(st)
		fm.ForEachChild(func(string, int, *FieldMask) bool { return true })
	})
}
