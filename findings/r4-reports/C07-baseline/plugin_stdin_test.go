package sdk

// Baseline finding (unmodified tree): the bytes a plugin receives on stdin are not deterministic.
// Place in sdk/ and run: go test -vet=off -count=1 -run TestBaselinePluginStdin ./sdk/   (FAILS on the unmodified tree)

import (
	"bytes"
	"os"
	"path/filepath"
	"testing"

	"github.com/cloudwego/thriftgo/parser"
	"github.com/cloudwego/thriftgo/plugin"
	"github.com/cloudwego/thriftgo/semantic"
)

func TestBaselinePluginStdin(t *testing.T) {
	dir := t.TempDir()
	idl := filepath.Join(dir, "a.thrift")
	os.WriteFile(idl, []byte("namespace go a\nstruct A {1: string x}\nstruct B {1: string x}\nstruct C {1: string x}\nenum E {X}\n"), 0o644)
	ast, err := parser.ParseFile(idl, nil, true)
	if err != nil {
		t.Fatal(err)
	}
	checker := semantic.NewChecker(semantic.Options{FixWarnings: true})
	if _, err := checker.CheckAll(ast); err != nil {
		t.Fatal(err)
	}
	if err := semantic.ResolveSymbols(ast); err != nil {
		t.Fatal(err)
	}
	req := &plugin.Request{Version: "v", OutputPath: "out", Recursive: true, AST: ast, Language: "go"}
	first, _ := plugin.MarshalRequest(req) // what external.Execute pipes to the plugin
	for i := 0; i < 200; i++ {
		b, _ := plugin.MarshalRequest(req)
		if !bytes.Equal(first, b) {
			t.Fatalf("plugin stdin differs at run %d (parser.Thrift.FastAppend ranges over the Name2Category map)", i+1)
		}
	}
}
