#!/bin/sh
# Baseline finding (unmodified tree): -g go:with_reflection output is not deterministic.
# usage: sh reflection.sh /tmp/seed4-C07      (exits 1 on the unmodified tree)
export GOFLAGS=-mod=mod GOPROXY=off GOSUMDB=off GOTOOLCHAIN=local
set -e
W=$(mktemp -d); (cd "$1" && go build -o "$W/thriftgo" .)
mkdir "$W/idl"; cat > "$W/idl/a.thrift" <<'IDL'
namespace go demo.a
namespace java demo.a
namespace py demo.a
struct S {
  1: string x (k1 = "v1", k2 = "v2", k3 = "v3")
} (a1 = "1", a2 = "2", a3 = "3")
const map<string,i32> M = {"a": 1, "b": 2, "c": 3, "d": 4}
IDL
cd "$W"
for i in 1 2 3 4 5 6; do ./thriftgo -g go:with_reflection -o out$i idl/a.thrift >/dev/null 2>&1; done
for i in 2 3 4 5 6; do cmp -s out1/demo/a/a-reflection.go out$i/demo/a/a-reflection.go || { echo "a-reflection.go differs between run 1 and run $i"; exit 1; }; done
echo identical
