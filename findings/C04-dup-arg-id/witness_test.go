package semantic

// Witness for finding C04-dup-arg-id (failed obligations semantic.checker.CheckFunctions#invariant-step:loop1.1:inv5...:
// err == nil only if the ids and names within every argument list and every throws list are distinct).
// CheckFunctions checked function names and the oneway rules but not the argument and exception lists; thriftgo
// accepted `void f(1: i32 a, 1: i32 b)`, exited 0 and wrote Go code with a duplicate `case 1:` (does not compile).

import (
	"testing"

	"github.com/cloudwego/thriftgo/parser"
)

func TestWitnessDupArgID(t *testing.T) {
	for _, src := range []string{
		"service S { void f(1: i32 a, 1: i32 b) }",
		"service S { void f(1: i32 a, 2: i32 a) }",
		"exception E1 {} exception E2 {} service S { void f() throws (1: E1 x, 1: E2 y) }",
	} {
		ast, err := parser.ParseString("a.thrift", src)
		if err != nil {
			t.Fatal(err)
		}
		if _, err := NewChecker(Options{}).CheckAll(ast); err == nil {
			t.Errorf("accepted without a diagnostic: %s", src)
		}
	}
}
