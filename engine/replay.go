package main

// Counterexample replay: for a failed obligation with a solver model, in a loop-free function, the entry state
// (parameters and the part of the heap reachable from them) is read out of the model, a Go test that builds it and
// calls the real function is generated, injected into the package with `go test -overlay`, and run. For safety
// obligations the replay succeeds when the call panics; for postconditions when the Go rendering of the violated
// clause evaluates to false.

import (
	"fmt"
	"go/ast"
	"go/types"
	"os"
	"os/exec"
	"path/filepath"
	"sort"
	"strconv"
	"strings"
)

type replayResult struct {
	Attempted  bool   `json:"attempted"`
	Reproduced bool   `json:"reproduced"`
	Reason     string `json:"reason,omitempty"`
	TestSource string `json:"test_source,omitempty"`
	TestPkgDir string `json:"test_package_dir,omitempty"`
	TestName   string `json:"test_name,omitempty"`
	Output     string `json:"output,omitempty"`
}

// ---- model oracle: the (deterministic) solver is re-run with a growing list of get-value requests ----

type smtSession struct {
	smt     string
	cache   map[string]string
	pending map[string]*Term
	asked   map[string]*Term
	missing bool
	file    string
}

func startSession(smt string) (*smtSession, string, error) {
	smt = strings.Replace(smt, "(set-logic ALL)", "(set-option :produce-models true)\n(set-logic ALL)", 1)
	f, err := os.CreateTemp("", "govc-model*.smt2")
	if err != nil {
		return nil, "", err
	}
	f.Close()
	s := &smtSession{smt: smt, cache: map[string]string{}, pending: map[string]*Term{}, asked: map[string]*Term{}, file: f.Name()}
	first, _ := s.run()
	return s, first, nil
}

func (s *smtSession) close() { os.Remove(s.file) }

// run executes the query with all pending get-value requests and fills the cache.
func (s *smtSession) run() (string, error) {
	var keys []string
	for k := range s.pending {
		keys = append(keys, k)
	}
	sort.Strings(keys)
	var b strings.Builder
	// symbols requested but not mentioned by the obligation are unconstrained: declare them
	c := newCollector()
	for _, k := range keys {
		c.term(s.pending[k])
	}
	for k, t := range s.asked {
		_ = k
		c.term(t)
	}
	base := s.smt
	cut := strings.LastIndex(base, "(check-sat)")
	b.WriteString(base[:cut])
	var ds []*Decl
	for d := range c.decls {
		if !strings.Contains(base, "(declare-fun "+d.Name+" ") {
			ds = append(ds, d)
		}
	}
	sort.Slice(ds, func(i, j int) bool { return ds[i].order < ds[j].order })
	for _, d := range ds {
		b.WriteString("(declare-fun " + d.Name + " (")
		for i, a := range d.Args {
			if i > 0 {
				b.WriteByte(' ')
			}
			b.WriteString(a.S)
		}
		b.WriteString(") " + d.Ret.S + ")\n")
	}
	b.WriteString(base[cut:])
	for _, k := range keys {
		s.asked[k] = s.pending[k]
	}
	keys = keys[:0]
	for k := range s.asked {
		keys = append(keys, k)
	}
	sort.Strings(keys)
	for _, k := range keys {
		b.WriteString("(echo \"@@\")\n(get-value (" + k + "))\n")
	}
	os.WriteFile(s.file, []byte(b.String()), 0o644)
	out, _ := exec.Command("z3-new", "-smt2", "-T:30", s.file).CombinedOutput()
	txt := string(out)
	first := strings.TrimSpace(strings.SplitN(txt, "\n", 2)[0])
	parts := strings.Split(txt, "@@")
	for i, k := range keys {
		if i+1 >= len(parts) {
			break
		}
		v := strings.TrimSpace(strings.TrimPrefix(strings.TrimSpace(parts[i+1]), "\""))
		v = strings.TrimSpace(strings.TrimPrefix(v, "\n"))
		v = strings.TrimSuffix(strings.TrimPrefix(v, "(("), "))")
		v = strings.TrimSpace(strings.TrimPrefix(strings.TrimSpace(v), k))
		s.cache[k] = v
	}
	s.pending = map[string]*Term{}
	return first, nil
}

// value returns the model value of a term as text ("" and missing=true when it has to be fetched in the next round).
func (s *smtSession) value(t *Term) (string, error) {
	k := t.String()
	if v, ok := s.cache[k]; ok {
		if strings.HasPrefix(v, "(error") {
			return "", fmt.Errorf("%s", v)
		}
		return v, nil
	}
	s.pending[k] = t
	s.missing = true
	return "0", nil
}

func parseSMTInt(v string) (int64, bool) {
	v = strings.TrimSpace(v)
	neg := false
	if strings.HasPrefix(v, "(-") {
		neg = true
		v = strings.TrimSpace(strings.TrimSuffix(strings.TrimPrefix(v, "(-"), ")"))
	}
	n, err := strconv.ParseInt(v, 10, 64)
	if err != nil {
		// big numbers: clamp
		if len(v) > 0 && v[0] >= '0' && v[0] <= '9' {
			if neg {
				return -1 << 62, true
			}
			return 1 << 62, true
		}
		return 0, false
	}
	if neg {
		n = -n
	}
	return n, true
}

// ---- building Go values from the model ----

type replayBuilder struct {
	vc      *VC
	sess    *smtSession
	st      *State // entry state
	pkg     *types.Package
	imports map[string]string // path -> name
	decls   []string          // object declarations
	sets    []string          // field assignments
	objs    map[string]string // "<type>@<ref>" -> go variable
	n       int
	fail    string
	keys    map[string][]*Term // sort -> candidate key terms (for map probing)
}

func (b *replayBuilder) typeStr(t types.Type) string {
	return types.TypeString(t, func(p *types.Package) string {
		if p == b.pkg {
			return ""
		}
		b.imports[p.Path()] = p.Name()
		return p.Name()
	})
}

func (b *replayBuilder) intVal(t *Term) (int64, bool) {
	v, err := b.sess.value(t)
	if err != nil {
		b.fail = "get-value failed: " + err.Error()
		return 0, false
	}
	return parseSMTInt(v)
}

func (b *replayBuilder) boolVal(t *Term) bool {
	v, err := b.sess.value(t)
	if err != nil {
		b.fail = "get-value failed: " + err.Error()
	}
	return strings.TrimSpace(v) == "true"
}

func (b *replayBuilder) strVal(t *Term) string {
	n, ok := b.intVal(strLen(t))
	if !ok || n < 0 {
		return ""
	}
	if n > 64 {
		n = 64
	}
	bs := make([]byte, n)
	for i := int64(0); i < n; i++ {
		c, ok := b.intVal(strAt(t, IntLit(i)))
		if !ok || c < 32 || c > 126 {
			c = 'a' + (i % 26)
		}
		bs[i] = byte(c)
	}
	return string(bs)
}

// goValue returns a Go expression for the model value of term t of Go type ty.
func (b *replayBuilder) goValue(t *Term, ty types.Type, depth int) string {
	if b.fail != "" {
		return "nil"
	}
	switch u := ty.Underlying().(type) {
	case *types.Basic:
		info := u.Info()
		switch {
		case info&types.IsBoolean != 0:
			return fmt.Sprint(b.boolVal(t))
		case info&types.IsInteger != 0:
			n, _ := b.intVal(t)
			return fmt.Sprintf("%s(%d)", b.typeStr(ty), n)
		case info&types.IsString != 0:
			return fmt.Sprintf("%s(%q)", b.typeStr(ty), b.strVal(t))
		case info&types.IsFloat != 0:
			return b.typeStr(ty) + "(0)"
		}
	case *types.Pointer:
		ref, ok := b.intVal(t)
		if !ok || ref == 0 {
			return "nil"
		}
		key := fmt.Sprintf("%s@%d", typeKey(u.Elem()), ref)
		if v, ok := b.objs[key]; ok {
			return v
		}
		if depth > 4 || len(b.objs) > 40 {
			return "nil"
		}
		b.n++
		v := fmt.Sprintf("o%d", b.n)
		b.objs[key] = v
		b.decls = append(b.decls, fmt.Sprintf("%s := new(%s)", v, b.typeStr(u.Elem())))
		if st, ok := isStructType(u.Elem()); ok {
			for i := 0; i < st.NumFields(); i++ {
				f := st.Field(i)
				if f.Name() == "_" || (!f.Exported() && f.Pkg() != b.pkg) {
					continue
				}
				_, arr := b.vc.fieldArr(b.st, u.Elem(), f)
				val := b.goValue(Select(arr, IntLit(ref)), f.Type(), depth+1)
				b.sets = append(b.sets, fmt.Sprintf("%s.%s = %s", v, f.Name(), val))
			}
		} else {
			_, arr := b.vc.boxArr(b.st, u.Elem())
			val := b.goValue(Select(arr, IntLit(ref)), u.Elem(), depth+1)
			b.sets = append(b.sets, fmt.Sprintf("*%s = %s", v, val))
		}
		return v
	case *types.Struct:
		var parts []string
		for i := 0; i < u.NumFields(); i++ {
			f := u.Field(i)
			if f.Name() == "_" || (!f.Exported() && f.Pkg() != b.pkg) {
				continue
			}
			parts = append(parts, fmt.Sprintf("%s: %s", f.Name(), b.goValue(Sel(t, fieldSelName(f)), f.Type(), depth+1)))
		}
		return b.typeStr(ty) + "{" + strings.Join(parts, ", ") + "}"
	case *types.Slice:
		if b.boolVal(Sel(t, "isnil")) {
			return "nil"
		}
		n, _ := b.intVal(sliceLen(t))
		if n < 0 {
			n = 0
		}
		if n > 8 {
			n = 8
		}
		var parts []string
		for i := int64(0); i < n; i++ {
			parts = append(parts, b.goValue(Select(sliceElems(t), IntLit(i)), u.Elem(), depth+1))
		}
		return b.typeStr(ty) + "{" + strings.Join(parts, ", ") + "}"
	case *types.Array:
		// only non-zero elements
		var parts []string
		for i := int64(0); i < u.Len() && i < 128; i++ {
			e := b.goValue(Select(t, IntLit(i)), u.Elem(), depth+1)
			if e != "nil" && e != "false" && !strings.HasSuffix(e, "(0)") {
				parts = append(parts, fmt.Sprintf("%d: %s", i, e))
			}
		}
		return b.typeStr(ty) + "{" + strings.Join(parts, ", ") + "}"
	case *types.Map:
		ref, ok := b.intVal(t)
		if !ok || ref == 0 {
			return "nil"
		}
		key := fmt.Sprintf("%s@%d", typeKey(ty), ref)
		if v, ok := b.objs[key]; ok {
			return v
		}
		b.n++
		v := fmt.Sprintf("o%d", b.n)
		b.objs[key] = v
		b.decls = append(b.decls, fmt.Sprintf("%s := make(%s)", v, b.typeStr(ty)))
		a := b.vc.mapArrs(b.st, u)
		for _, k := range b.keys[a.ks.S] {
			if b.boolVal(Select(Select(a.dom, IntLit(ref)), k)) {
				kv := b.goValue(k, u.Key(), depth+1)
				vv := b.goValue(Select(Select(a.val, IntLit(ref)), k), u.Elem(), depth+1)
				b.sets = append(b.sets, fmt.Sprintf("%s[%s] = %s", v, kv, vv))
			}
		}
		return v
	case *types.Interface, *types.Signature, *types.Chan:
		ref, ok := b.intVal(t)
		if ok && ref == 0 {
			return "nil"
		}
		b.fail = "cannot build a value of type " + ty.String()
		return "nil"
	}
	b.fail = "cannot build a value of type " + ty.String()
	return "nil"
}

// ---- rendering spec clauses as Go ----

type goRender struct {
	b      *replayBuilder
	env    *SpecEnv
	subst  map[string]string // identifier -> Go expression
	helper map[string]string
	fail   string
}

func (r *goRender) expr(e *SExpr) string {
	switch e.K {
	case "int":
		return e.Name
	case "str":
		return strconv.Quote(e.Name)
	case "id":
		if g, ok := r.subst[e.Name]; ok {
			return g
		}
		if strings.HasPrefix(e.Name, "$") {
			r.fail = "ghost variable in clause"
		}
		return e.Name
	case "un":
		return "(" + e.Op + r.expr(e.X) + ")"
	case "bin":
		switch e.Op {
		case "==>":
			return "(!(" + r.expr(e.X) + ") || (" + r.expr(e.Y) + "))"
		case "<==>":
			return "((" + r.expr(e.X) + ") == (" + r.expr(e.Y) + "))"
		}
		return "(" + r.expr(e.X) + " " + e.Op + " " + r.expr(e.Y) + ")"
	case "sel":
		return r.expr(e.X) + "." + e.Name
	case "idx":
		return r.expr(e.X) + "[" + r.expr(e.Y) + "]"
	case "call":
		if e.X.K == "id" {
			switch e.X.Name {
			case "old":
				// parameters are unchanged values; heap old() is not supported
				inner := e.Args[0]
				if inner.K == "id" {
					return r.expr(inner)
				}
				r.fail = "old() of a heap expression"
				return "false"
			case "ite":
				tv := r.env.safeStaticType(e.Args[1])
				if tv == "" {
					tv = r.env.safeStaticType(e.Args[2])
				}
				if tv == "" {
					r.fail = "cannot type ite()"
					return "false"
				}
				return fmt.Sprintf("func() %s { if %s { return %s }; return %s }()", tv, r.expr(e.Args[0]), r.expr(e.Args[1]), r.expr(e.Args[2]))
			case "inDom":
				return fmt.Sprintf("func() bool { _, ok := %s[%s]; return ok }()", r.expr(e.Args[0]), r.expr(e.Args[1]))
			case "len":
				return "len(" + r.expr(e.Args[0]) + ")"
			case "fresh", "allocated", "unchanged":
				r.fail = e.X.Name + "() is not executable"
				return "true"
			}
			if pf := r.env.lookupPure(e.X.Name); pf != nil {
				name := "spec_" + pf.Name
				if _, ok := r.helper[name]; !ok {
					r.helper[name] = "" // recursion guard
					var ps []string
					penv := *r.env
					penv.vars = map[string]TV{}
					if pk := r.env.vc.prog.Pkgs[pf.Pkg]; pk != nil {
						penv.pkg = pk
					}
					sub := &goRender{b: r.b, env: &penv, subst: map[string]string{}, helper: r.helper}
					for _, p := range pf.Params {
						ps = append(ps, p.Name+" "+p.Type.String())
						func() {
							defer func() { recover() }()
							penv.vars[p.Name] = TV{nil, penv.resolveType(p.Type)}
						}()
					}
					body := sub.expr(pf.Body)
					if sub.fail != "" {
						r.fail = sub.fail
					}
					r.helper[name] = fmt.Sprintf("func %s(%s) %s { return %s }", name, strings.Join(ps, ", "), pf.Ret.String(), body)
				}
				var as []string
				for _, a := range e.Args {
					as = append(as, r.expr(a))
				}
				return name + "(" + strings.Join(as, ", ") + ")"
			}
			// type conversion or Go function in the package
			var as []string
			for _, a := range e.Args {
				as = append(as, r.expr(a))
			}
			return e.X.Name + "(" + strings.Join(as, ", ") + ")"
		}
		if e.X.K == "sel" {
			var as []string
			for _, a := range e.Args {
				as = append(as, r.expr(a))
			}
			return r.expr(e.X) + "(" + strings.Join(as, ", ") + ")"
		}
	case "q":
		r.fail = "quantifier in clause"
		return "true"
	}
	r.fail = "unsupported spec expression for replay: " + e.String()
	return "true"
}

func (env *SpecEnv) safeStaticType(e *SExpr) (out string) {
	defer func() {
		if r := recover(); r != nil {
			out = ""
		}
	}()
	if e.K == "id" && e.Name == "nil" {
		return ""
	}
	t := env.staticType(e)
	if t == nil {
		if e.K == "call" && e.X.K == "id" {
			if pf := env.lookupPure(e.X.Name); pf != nil {
				return pf.Ret.String()
			}
		}
		return ""
	}
	return types.TypeString(t, func(p *types.Package) string {
		if env.pkg != nil && p == env.pkg.Types {
			return ""
		}
		return p.Name()
	})
}

func specHasQuant(e *SExpr) bool {
	if e == nil {
		return false
	}
	if e.K == "q" {
		return true
	}
	if specHasQuant(e.X) || specHasQuant(e.Y) || specHasQuant(e.Z) {
		return true
	}
	for _, a := range e.Args {
		if specHasQuant(a) {
			return true
		}
	}
	return false
}

func hasLoops(n ast.Node) bool {
	found := false
	ast.Inspect(n, func(x ast.Node) bool {
		switch x.(type) {
		case *ast.ForStmt, *ast.RangeStmt, *ast.GoStmt:
			found = true
		}
		return !found
	})
	return found
}

// tryReplay attempts to turn the model of a failed obligation into a failing Go test on the real code.
func (prog *Program) tryReplay(o *Obligation, axioms []*Term, repo string) *replayResult {
	res := &replayResult{}
	vc := o.VCtx
	if vc == nil || o.Raw != "" || o.Cover {
		res.Reason = "no replay for this kind of obligation"
		return res
	}
	fi := vc.fn
	// A function with loops is verified with its loops cut at the invariants, so a model of the failed condition need
	// not be an execution. Its INPUTS are still worth running: if the real code fails on them, that is a counterexample
	// whatever the model said about the loop; if it does not, nothing is concluded.
	loopy := hasLoops(fi.Decl.Body)
	if o.Kind != "safety" && o.Kind != "ensures" {
		res.Reason = "replay is implemented for safety and postcondition obligations"
		return res
	}
	if hasQuant(o.Goal) {
		res.Reason = "the violated clause is quantified"
		return res
	}
	// every precondition must be executable, so that the candidate input can be checked against it
	for _, r := range fi.Spec.Requires {
		if specHasQuant(r) {
			res.Reason = "a precondition is quantified: candidate inputs cannot be validated"
			return res
		}
	}
	res.Attempted = true
	groundOnly = true
	smt := prog.buildSMT(o, axioms, false)
	groundOnly = false
	sess, first, err := startSession(smt)
	if err != nil || first != "sat" {
		if sess != nil {
			sess.close()
		}
		res.Reason = "interactive solver session did not return sat: " + first
		return res
	}
	defer sess.close()
	sig := fi.Obj.Type().(*types.Signature)
	var b *replayBuilder
	var args []string
	recvExpr := ""
	var subst map[string]string
	var paramObjs []*types.Var
	for round := 0; round < 12; round++ {
		sess.missing = false
		b = &replayBuilder{vc: vc, sess: sess, st: vc.entry, pkg: fi.Pkg.Types, imports: map[string]string{}, objs: map[string]string{}, keys: map[string][]*Term{}}
		args = nil
		recvExpr = ""
		paramObjs = nil
		// candidate map keys: parameters (and literals) by sort
		addKey := func(t *Term) { b.keys[t.Sort.S] = append(b.keys[t.Sort.S], t) }
		if sig.Recv() != nil {
			paramObjs = append(paramObjs, sig.Recv())
		}
		for i := 0; i < sig.Params().Len(); i++ {
			paramObjs = append(paramObjs, sig.Params().At(i))
		}
		pv := map[*types.Var]*Term{}
		for _, p := range paramObjs {
			if t, ok := vc.paramVals[p]; ok {
				pv[p] = t
				if t.Sort == SInt || t.Sort == SStr {
					addKey(t)
				}
			}
		}
		for _, s := range strLitOrder {
			addKey(strLits[s])
		}
		for i := int64(-1); i <= 2; i++ {
			addKey(IntLit(i))
		}
		subst = map[string]string{}
		for _, p := range paramObjs {
			t, ok := pv[p]
			if !ok {
				if p.Name() == "_" || p.Name() == "" {
					args = append(args, "*new("+b.typeStr(p.Type())+")")
					continue
				}
				res.Reason = "parameter " + p.Name() + " has no model value"
				return res
			}
			g := b.goValue(t, p.Type(), 0)
			name := "p_" + p.Name()
			b.sets = append(b.sets, fmt.Sprintf("%s := %s", name, g))
			subst[p.Name()] = name
			if sig.Recv() == p {
				recvExpr = name
			} else {
				args = append(args, name)
			}
		}
		if b.fail != "" {
			res.Reason = b.fail
			return res
		}
		if !sess.missing {
			break
		}
		sess.run()
	}
	if sess.missing {
		res.Reason = "model extraction did not converge"
		return res
	}
	// results
	var resNames []string
	for i := 0; i < sig.Results().Len(); i++ {
		rn := fmt.Sprintf("result%d", i)
		resNames = append(resNames, rn)
		rv := sig.Results().At(i)
		if rv.Name() != "" && rv.Name() != "_" {
			subst[rv.Name()] = rn
		}
		subst[rn] = rn
	}
	if len(resNames) > 0 {
		subst["result"] = "result0"
	}
	callee := fi.Obj.Name()
	if recvExpr != "" {
		callee = recvExpr + "." + fi.Obj.Name()
	}
	if sig.Variadic() && len(args) > 0 {
		args[len(args)-1] += "..."
	}
	call := callee + "(" + strings.Join(args, ", ") + ")"
	if len(resNames) > 0 {
		call = strings.Join(resNames, ", ") + " = " + call
	}
	// postcondition rendering
	check := ""
	var helpers []string
	pre := ""
	{
		env := &SpecEnv{vc: vc, st: vc.entry, vars: map[string]TV{}, pkg: fi.Pkg, scope: fi.Pkg.TypesInfo.Scopes[fi.Decl.Type], pos: fi.Decl.Body.Lbrace, what: "replay"}
		r := &goRender{b: b, env: env, subst: subst, helper: map[string]string{}}
		for _, rq := range fi.Spec.Requires {
			g := r.expr(rq)
			if r.fail != "" {
				res.Reason = "precondition not executable: " + r.fail
				return res
			}
			pre += fmt.Sprintf("\tif !(%s) {\n\t\tt.Skip(\"REPLAY-INCONCLUSIVE: candidate input violates the precondition\")\n\t}\n", g)
		}
		var hn []string
		for k := range r.helper {
			hn = append(hn, k)
		}
		sort.Strings(hn)
		for _, k := range hn {
			helpers = append(helpers, r.helper[k])
		}
	}
	if o.Kind == "ensures" {
		if o.Clause == nil {
			res.Reason = "no clause attached"
			return res
		}
		env := &SpecEnv{vc: vc, st: vc.entry, vars: map[string]TV{}, pkg: fi.Pkg, scope: fi.Pkg.TypesInfo.Scopes[fi.Decl.Type], pos: fi.Decl.Body.Lbrace, what: "replay"}
		for i := 0; i < sig.Results().Len(); i++ {
			env.vars[fmt.Sprintf("result%d", i)] = TV{nil, sig.Results().At(i).Type()}
		}
		if sig.Results().Len() > 0 {
			env.vars["result"] = TV{nil, sig.Results().At(0).Type()}
		}
		r := &goRender{b: b, env: env, subst: subst, helper: map[string]string{}}
		g := r.expr(o.Clause)
		if r.fail != "" {
			res.Reason = "clause not executable: " + r.fail
			return res
		}
		var hn []string
		for k := range r.helper {
			hn = append(hn, k)
		}
		sort.Strings(hn)
		for _, k := range hn {
			dup := false
			for _, h := range helpers {
				if h == r.helper[k] {
					dup = true
				}
			}
			if !dup {
				helpers = append(helpers, r.helper[k])
			}
		}
		check = fmt.Sprintf("\tvar holds bool\n\tfunc() {\n\t\tdefer func() {\n\t\t\tif r := recover(); r != nil {\n\t\t\t\tt.Skipf(\"REPLAY-INCONCLUSIVE: evaluating the clause panicked: %%v\", r)\n\t\t\t}\n\t\t}()\n\t\tholds = %s\n\t}()\n\tif !holds {\n\t\tt.Fatalf(\"REPLAY-VIOLATED: %%s\", %q)\n\t}\n", g, o.Clause.Src)
	}
	testName := "TestGovcReplay"
	var src strings.Builder
	src.WriteString("package " + fi.Pkg.Types.Name() + "\n\nimport (\n\t\"testing\"\n")
	var ips []string
	for p := range b.imports {
		ips = append(ips, p)
	}
	sort.Strings(ips)
	for _, p := range ips {
		src.WriteString("\t" + b.imports[p] + " " + strconv.Quote(p) + "\n")
	}
	src.WriteString(")\n\n// Generated by govc from the solver model of obligation " + o.Name + "\n// " + strings.ReplaceAll(o.Desc, "\n", " ") + "\n\n")
	for _, h := range helpers {
		src.WriteString(h + "\n\n")
	}
	src.WriteString("func " + testName + "(t *testing.T) {\n")
	for _, d := range b.decls {
		src.WriteString("\t" + d + "\n")
	}
	for _, s := range b.sets {
		src.WriteString("\t" + s + "\n")
	}
	for i := 0; i < sig.Results().Len(); i++ {
		src.WriteString(fmt.Sprintf("\tvar result%d %s\n\t_ = result%d\n", i, b.typeStr(sig.Results().At(i).Type()), i))
	}
	for _, p := range paramObjs {
		if n, ok := subst[p.Name()]; ok {
			src.WriteString("\t_ = " + n + "\n")
		}
	}
	src.WriteString(pre)
	src.WriteString("\tvar panicked interface{}\n\tfunc() {\n\t\tdefer func() { panicked = recover() }()\n\t\t" + call + "\n\t}()\n")
	src.WriteString("\tif panicked != nil {\n\t\tt.Fatalf(\"REPLAY-PANIC: %v\", panicked)\n\t}\n")
	src.WriteString(check)
	src.WriteString("}\n")
	res.TestSource = src.String()
	res.TestName = testName
	rel, _ := filepath.Rel(repo, filepath.Dir(prog.Fset.Position(fi.Decl.Pos()).Filename))
	res.TestPkgDir = rel
	out, failed := runReplayTest(repo, rel, res.TestSource, testName)
	res.Output = out
	if o.Kind == "safety" {
		res.Reproduced = failed && strings.Contains(out, "REPLAY-PANIC")
	} else {
		res.Reproduced = failed && strings.Contains(out, "REPLAY-VIOLATED")
	}
	if !res.Reproduced && res.Reason == "" {
		res.Reason = "the generated test did not reproduce the failure on the real code (the model may rely on abstracted library behaviour)"
		if loopy {
			res.Reason = "the function contains loops (cut at their invariants): the inputs of the solver's model were run on the real code and did not fail"
		}
	}
	return res
}

// runReplayTest injects the test file into the package with -overlay and runs it.
func runReplayTest(repo, pkgDir, src, testName string) (string, bool) {
	tmp, err := os.MkdirTemp("", "govc-replay")
	if err != nil {
		return err.Error(), false
	}
	defer os.RemoveAll(tmp)
	tf := filepath.Join(tmp, "zz_govc_replay_test.go")
	os.WriteFile(tf, []byte(src), 0o644)
	ov := filepath.Join(tmp, "ov.json")
	os.WriteFile(ov, []byte(fmt.Sprintf(`{"Replace":{"%s/%s/zz_govc_replay_test.go":"%s"}}`, repo, pkgDir, tf)), 0o644)
	cmd := exec.Command("go", "test", "-overlay", ov, "-vet=off", "-count=1", "-timeout", "60s", "-run", "^"+testName+"$", "./"+pkgDir)
	cmd.Dir = repo
	cmd.Env = append(os.Environ(), "GOFLAGS=-mod=mod", "GOPROXY=off", "GOSUMDB=off", "GOTOOLCHAIN=local")
	out, err := cmd.CombinedOutput()
	s := string(out)
	if len(s) > 4000 {
		s = s[:4000]
	}
	return s, err != nil
}
