package main

// Heap model: field arrays, boxes, maps, allocation.

import (
	"fmt"
	"go/token"
	"go/types"
	"strings"
)

func structTypeKey(t types.Type) string {
	if p, ok := t.Underlying().(*types.Pointer); ok {
		t = p.Elem()
	}
	return typeKey(t)
}

func fieldArrName(structT types.Type, f *types.Var) string {
	return "F." + structTypeKey(structT) + "." + f.Name()
}

func (vc *VC) fieldArr(s *State, structT types.Type, f *types.Var) (string, *Term) {
	name := fieldArrName(structT, f)
	vc.heapGoTypes[name] = f.Type()
	return name, vc.heapArr(s, name, ArraySort(SInt, sortOf(f.Type())))
}

func boxArrName(t types.Type) string { return "Box." + typeKey(t) }

func (vc *VC) boxArr(s *State, t types.Type) (string, *Term) {
	name := boxArrName(t)
	vc.heapGoTypes[name] = t
	return name, vc.heapArr(s, name, ArraySort(SInt, sortOf(t)))
}

// loaded applies type invariants to a value freshly read from the heap (or otherwise unconstrained).
func (vc *VC) loaded(s *State, t types.Type, v *Term, hint string) *Term {
	if pureMode {
		return v
	}
	v = s.name(hint, v)
	inv := typeInv(t, v, s.alloc)
	if inv != True {
		s.assume(inv)
	}
	return v
}

func (vc *VC) nonNil(s *State, ref *Term, site string, desc string, pos token.Pos) {
	vc.oblige(s, "safety", site, "nil dereference: "+desc, pos, Not(Eq(ref, IntLit(0))))
}

func (vc *VC) loadField(s *State, structT types.Type, f *types.Var, ref *Term) *Term {
	_, arr := vc.fieldArr(s, structT, f)
	return vc.loaded(s, f.Type(), Select(arr, ref), f.Name())
}

func (vc *VC) storeField(s *State, structT types.Type, f *types.Var, ref, v *Term) {
	name, arr := vc.fieldArr(s, structT, f)
	vc.writeAllowed(s, name, ref)
	n := Fresh(name, arr.Sort)
	s.assume(Eq(n, Store(arr, ref, v)))
	s.heap[name] = n
}

// loadStruct reads the whole struct value at ref.
func (vc *VC) loadStruct(s *State, t types.Type, ref *Term) *Term {
	st, _ := isStructType(t)
	args := make([]*Term, st.NumFields())
	for i := 0; i < st.NumFields(); i++ {
		_, arr := vc.fieldArr(s, t, st.Field(i))
		args[i] = Select(arr, ref)
	}
	return Ctor(sortOf(t), args...)
}

func (vc *VC) storeStruct(s *State, t types.Type, ref, v *Term) {
	st, _ := isStructType(t)
	for i := 0; i < st.NumFields(); i++ {
		vc.storeField(s, t, st.Field(i), ref, Sel(v, fieldSelName(st.Field(i))))
	}
}

// loadPtr: *p for p of type *T
func (vc *VC) loadPtr(s *State, elemT types.Type, ref *Term) *Term {
	if _, ok := isStructType(elemT); ok {
		return vc.loadStruct(s, elemT, ref)
	}
	_, arr := vc.boxArr(s, elemT)
	return vc.loaded(s, elemT, Select(arr, ref), "ld")
}

func (vc *VC) storePtr(s *State, elemT types.Type, ref, v *Term) {
	if _, ok := isStructType(elemT); ok {
		vc.storeStruct(s, elemT, ref, v)
		return
	}
	name, arr := vc.boxArr(s, elemT)
	vc.writeAllowed(s, name, ref)
	n := Fresh(name, arr.Sort)
	s.assume(Eq(n, Store(arr, ref, v)))
	s.heap[name] = n
}

// writeAllowed: every heap write must be inside the function's modifies clause or on an object allocated
// after entry (Dafny-style frame discipline; loops and calls may then assume the frame).
func (vc *VC) writeAllowed(s *State, arrName string, ref *Term) {
	if vc.quiet || vc.entry == nil || vc.modAll {
		return
	}
	a := vc.topMods[arrName]
	if a != nil && a.whole {
		return
	}
	var alts []*Term
	if ref != nil {
		alts = append(alts, Ge(ref, vc.entry.alloc))
		if a != nil {
			for _, x := range a.refs {
				alts = append(alts, Eq(ref, x))
			}
		}
	}
	site := "write"
	if vc.curStmt != nil {
		site = vc.siteName("stmt", vc.curStmt)
	}
	vc.oblige(s, "frame", site+":"+arrName, "write to "+arrName+" must be covered by the modifies clause (or hit an object allocated by this call)", vc.curPos, Or(alts...))
}

// assumeFrame: after a havoc of heap array name, locations outside the function's modifies clause on objects
// allocated at entry still hold their entry values (justified by the writeAllowed obligations).
func (vc *VC) assumeFrame(s *State, name string) {
	if vc.entry == nil || vc.modAll || s.epoch != "0" {
		return
	}
	a := vc.topMods[name]
	if a != nil && a.whole {
		return
	}
	srt := vc.heapSorts[name]
	if srt == nil || srt.Key == nil {
		if srt != nil {
			// global value not in modifies: unchanged
			s.assume(Eq(s.heap[name], vc.heapArr(vc.entry, name, srt)))
		}
		return
	}
	cur := s.heap[name]
	old := vc.heapArr(vc.entry, name, srt)
	if cur == old {
		return
	}
	r := BoundVar("fr", SInt)
	conds := []*Term{Le(IntLit(0), r), Lt(r, vc.entry.alloc)}
	if a != nil {
		for _, x := range a.refs {
			conds = append(conds, Not(Eq(r, x)))
		}
	}
	s.assume(Forall([]*Term{r}, Implies(And(conds...), Eq(Select(cur, r), Select(old, r))), []*Term{Select(cur, r)}))
}

// loadedDeep: like loaded, for values that do not come from the heap (parameters, havocked locals, call results):
// slices of references additionally get the element-wise allocation/typing fact (heap cells have it from rootFact).
func (vc *VC) loadedDeep(s *State, t types.Type, v *Term, hint string) *Term {
	deepInv = true
	defer func() { deepInv = false }()
	return vc.loaded(s, t, v, hint)
}

// allocRef returns a fresh non-nil reference.
// rtype: dynamic type tag of a reference (references of different Go types share one integer space).
var typeIDs = map[string]int64{}

func typeID(t types.Type) *Term {
	k := typeKey(t)
	id, ok := typeIDs[k]
	if !ok {
		id = int64(len(typeIDs) + 1)
		typeIDs[k] = id
	}
	return IntLit(id)
}

func rtypeOf(r *Term) *Term { return App("rtype", SInt, r) }

// refTyped: a non-nil reference of static type t (pointer, map, chan) carries the tag of what it points to.
func refTyped(t types.Type, v *Term) *Term {
	switch u := t.Underlying().(type) {
	case *types.Pointer:
		return Implies(Not(Eq(v, IntLit(0))), Eq(rtypeOf(v), typeID(u.Elem())))
	case *types.Map:
		return Implies(Not(Eq(v, IntLit(0))), Eq(rtypeOf(v), typeID(t.Underlying())))
	}
	return True
}

func (vc *VC) allocRef(s *State, hint string, tag *Term) *Term {
	r := Fresh("ref."+hint, SInt)
	s.assume(Eq(r, s.alloc)) // bump allocation: no unexplained gap between allocated objects
	s.assume(Gt(r, IntLit(0)))
	if tag != nil {
		s.assume(Eq(rtypeOf(r), tag))
	}
	na := Fresh("alloc", SInt)
	s.assume(Eq(na, Add(r, IntLit(1))))
	s.alloc = na
	return r
}

// newObject allocates *T initialised with value v.
func (vc *VC) newObject(s *State, t types.Type, v *Term) *Term {
	r := vc.allocRef(s, typeKey(t), typeID(t))
	vc.storePtr(s, t, r, v)
	return r
}

// ---- maps ----

type mapArrs struct {
	domName, valName, cardName string
	dom, val, card             *Term
	ks, vs                     *Sort
}

func mapKeyName(mt *types.Map) string {
	return typeKey(mt.Key()) + "." + typeKey(mt.Elem())
}

func (vc *VC) mapArrs(s *State, mt *types.Map) mapArrs {
	ks, vs := sortOf(mt.Key()), sortOf(mt.Elem())
	k := mapKeyName(mt)
	m := mapArrs{domName: "MD." + k, valName: "MV." + k, cardName: "MC." + k, ks: ks, vs: vs}
	vc.heapGoTypes[m.valName] = mt.Elem()
	vc.mapValArr[m.valName] = true
	m.dom = vc.heapArr(s, m.domName, ArraySort(SInt, ArraySort(ks, SBool)))
	m.val = vc.heapArr(s, m.valName, ArraySort(SInt, ArraySort(ks, vs)))
	m.card = vc.heapArr(s, m.cardName, ArraySort(SInt, SInt))
	return m
}

func (vc *VC) mapInDom(s *State, mt *types.Map, m, k *Term) *Term {
	a := vc.mapArrs(s, mt)
	return And(Not(Eq(m, IntLit(0))), Select(Select(a.dom, m), k))
}

func (vc *VC) mapGet(s *State, mt *types.Map, m, k *Term) (v, ok *Term) {
	a := vc.mapArrs(s, mt)
	ok = And(Not(Eq(m, IntLit(0))), Select(Select(a.dom, m), k))
	raw := vc.loaded(s, mt.Elem(), Select(Select(a.val, m), k), "mv")
	v = Ite(ok, raw, zeroValue(mt.Elem()))
	return
}

func (vc *VC) mapSet(s *State, mt *types.Map, m, k, v *Term) {
	a := vc.mapArrs(s, mt)
	vc.writeAllowed(s, a.domName, m)
	was := Select(Select(a.dom, m), k)
	nd := Fresh(a.domName, a.dom.Sort)
	s.assume(Eq(nd, Store(a.dom, m, Store(Select(a.dom, m), k, True))))
	nv := Fresh(a.valName, a.val.Sort)
	s.assume(Eq(nv, Store(a.val, m, Store(Select(a.val, m), k, v))))
	nc := Fresh(a.cardName, a.card.Sort)
	s.assume(Eq(nc, Store(a.card, m, Add(Select(a.card, m), Ite(was, IntLit(0), IntLit(1))))))
	s.heap[a.domName], s.heap[a.valName], s.heap[a.cardName] = nd, nv, nc
}

func (vc *VC) mapDelete(s *State, mt *types.Map, m, k *Term) {
	a := vc.mapArrs(s, mt)
	vc.writeAllowed(s, a.domName, Ite(Eq(m, IntLit(0)), vc.entry0alloc(), m))
	was := Select(Select(a.dom, m), k)
	nd := Fresh(a.domName, a.dom.Sort)
	// delete on nil map is a no-op
	s.assume(Eq(nd, Ite(Eq(m, IntLit(0)), a.dom, Store(a.dom, m, Store(Select(a.dom, m), k, False)))))
	nc := Fresh(a.cardName, a.card.Sort)
	s.assume(Eq(nc, Ite(Eq(m, IntLit(0)), a.card, Store(a.card, m, Sub(Select(a.card, m), Ite(was, IntLit(1), IntLit(0)))))))
	s.heap[a.domName], s.heap[a.cardName] = nd, nc
}

func (vc *VC) mapMake(s *State, mt *types.Map) *Term {
	r := vc.allocRef(s, "map", typeID(mt))
	a := vc.mapArrs(s, mt)
	nd := Fresh(a.domName, a.dom.Sort)
	s.assume(Eq(nd, Store(a.dom, r, ConstArr(ArraySort(a.ks, SBool), False))))
	nc := Fresh(a.cardName, a.card.Sort)
	s.assume(Eq(nc, Store(a.card, r, IntLit(0))))
	s.heap[a.domName], s.heap[a.cardName] = nd, nc
	return r
}

func (vc *VC) mapLen(s *State, mt *types.Map, m *Term) *Term {
	a := vc.mapArrs(s, mt)
	l := s.name("maplen", Ite(Eq(m, IntLit(0)), IntLit(0), Select(a.card, m)))
	s.assume(Ge(l, IntLit(0)))
	return l
}

// havocHeap forgets everything about the heap (unknown call).
func (vc *VC) entry0alloc() *Term {
	if vc.entry != nil {
		return vc.entry.alloc
	}
	return IntLit(0)
}

func (vc *VC) havocHeap(s *State, why string) {
	if vc.entry != nil && !vc.modAll && !vc.quiet {
		vc.oblige(s, "frame", "havoc", "code that may modify the whole heap ("+why+") needs 'modifies *'", vc.curPos, False)
	}
	keep := map[string]*Term{}
	for k, v := range s.heap {
		if strings.HasPrefix(k, "GH.") {
			keep[k] = v
		}
	}
	for k := range vc.heapSorts {
		if strings.HasPrefix(k, "GH.") {
			if _, ok := keep[k]; !ok {
				keep[k] = vc.heapArr(s, k, vc.heapSorts[k])
			}
		}
	}
	s.heap = keep
	vc.epochCtr++
	s.epoch = fmt.Sprintf("h%d", vc.epochCtr)
	na := Fresh("alloc", SInt)
	s.assume(Ge(na, s.alloc))
	s.alloc = na
	vc.epochAlloc[s.epoch] = na
}

// havocArr replaces one heap array by a fresh unconstrained version.
func (vc *VC) havocArr(s *State, name string) {
	srt, ok := vc.heapSorts[name]
	if !ok {
		return
	}
	s.heap[name] = Fresh(name+".hv", srt)
}

// ---- slices ----

func sliceLen(v *Term) *Term   { return Sel(v, "len") }
func sliceElems(v *Term) *Term { return Sel(v, "elems") }

func mkSlice(srt *Sort, elems, ln, cp *Term, isnil *Term) *Term {
	return Ctor(srt, elems, ln, cp, isnil)
}

func arrShift(elems, off *Term) *Term {
	if n, ok := intConst(off); ok && n == 0 {
		return elems
	}
	name := "arr.shift." + strings.NewReplacer("(", "", ")", "", " ", "_").Replace(elems.Sort.S)
	return App(name, elems.Sort, elems, off)
}

// shiftAxioms: forall e,o,i. select(shift(e,o),i) = select(e,i+o)
func shiftAxioms(used map[*Decl]bool) []*Term {
	var out []*Term
	for name, d := range declTab {
		if !strings.HasPrefix(name, "arr.shift.") || !used[d] {
			continue
		}
		e := BoundVar("she", d.Args[0])
		o := BoundVar("sho", SInt)
		i := BoundVar("shi", SInt)
		sh := App(name, d.Ret, e, o)
		out = append(out, Forall([]*Term{e, o, i}, Eq(Select(sh, i), Select(e, Add(i, o))), []*Term{Select(sh, i)}))
	}
	return out
}

func isRefType(t types.Type) bool {
	switch t.Underlying().(type) {
	case *types.Pointer, *types.Map, *types.Chan:
		return true
	}
	return false
}

// rootFact: heap well-formedness of a freshly introduced (unconstrained) heap array version: every reference
// stored in it is allocated (< alloc) and non-negative. Needed so that fresh objects are known to be distinct from
// everything reachable, also inside quantified specifications.
func (vc *VC) rootFact(name string, arr *Term, alloc *Term) *Term {
	t := vc.heapGoTypes[name]
	if t == nil || arr.Sort.Key == nil {
		return True
	}
	x := BoundVar("hx", SInt)
	cell := Select(arr, x)
	guard := And(Le(IntLit(0), x), Lt(x, alloc))
	var body *Term
	var vars = []*Term{x}
	var pat *Term
	if vc.mapValArr[name] {
		k := BoundVar("hk", arr.Sort.Val.Key)
		vars = append(vars, k)
		cell = Select(cell, k)
	}
	switch u := t.Underlying().(type) {
	case *types.Pointer, *types.Map, *types.Chan:
		body = And(Le(IntLit(0), cell), Lt(cell, alloc), refTyped(t, cell))
		pat = cell
	case *types.Slice:
		if !isRefType(u.Elem()) {
			return True
		}
		i := BoundVar("hi", SInt)
		vars = append(vars, i)
		el := Select(sliceElems(cell), i)
		body = And(Le(IntLit(0), el), Lt(el, alloc), refTyped(u.Elem(), el))
		pat = el
	case *types.Array:
		if !isRefType(u.Elem()) {
			return True
		}
		i := BoundVar("hi", SInt)
		vars = append(vars, i)
		el := Select(cell, i)
		body = And(Le(IntLit(0), el), Lt(el, alloc), refTyped(u.Elem(), el))
		pat = el
	default:
		return True
	}
	return Forall(vars, Implies(guard, body), []*Term{pat})
}
