package main

// Symbolic state: environment, heap, path condition; merging.

import (
	"fmt"
	"go/types"
	"sort"
	"strings"
)

// PC is a persistent list of path facts.
type PC struct {
	parent *PC
	fact   *Term
	depth  int
}

func (p *PC) push(f *Term) *PC {
	if f == True {
		return p
	}
	d := 0
	if p != nil {
		d = p.depth
	}
	return &PC{parent: p, fact: f, depth: d + 1}
}

func (p *PC) facts() []*Term {
	n := 0
	if p != nil {
		n = p.depth
	}
	out := make([]*Term, n)
	for q := p; q != nil; q = q.parent {
		out[q.depth-1] = q.fact
	}
	return out
}

func lca(a, b *PC) *PC {
	for a != nil && b != nil && a != b {
		if a.depth > b.depth {
			a = a.parent
		} else if b.depth > a.depth {
			b = b.parent
		} else {
			a, b = a.parent, b.parent
		}
	}
	if a == nil || b == nil {
		return nil
	}
	return a
}

// factsSince returns conjunction of facts in p after ancestor base.
func factsSince(p, base *PC) *Term {
	var fs []*Term
	for q := p; q != base && q != nil; q = q.parent {
		fs = append(fs, q.fact)
	}
	// reverse
	for i, j := 0, len(fs)-1; i < j; i, j = i+1, j-1 {
		fs[i], fs[j] = fs[j], fs[i]
	}
	return And(fs...)
}

// pureMode: evaluate without introducing auxiliary constants/facts (used for Go calls inside specs).
var pureMode bool

type State struct {
	env    map[types.Object]*Term // values of unboxed locals; Ref of boxed locals
	ghost  map[string]*Term       // ghost / role variables ($i@path, $failed, ...)
	heap   map[string]*Term       // heap array name -> current term
	alloc  *Term
	pc     *PC
	dead   bool
	result []*Term // at return
	panicV *Term   // at panic exit
	epoch  string  // heap havoc epoch ("0" = function entry)
}

func (s *State) clone() *State {
	n := &State{env: make(map[types.Object]*Term, len(s.env)), ghost: make(map[string]*Term, len(s.ghost)),
		heap: make(map[string]*Term, len(s.heap)), alloc: s.alloc, pc: s.pc, result: s.result, panicV: s.panicV, epoch: s.epoch}
	for k, v := range s.env {
		n.env[k] = v
	}
	for k, v := range s.ghost {
		n.ghost[k] = v
	}
	for k, v := range s.heap {
		n.heap[k] = v
	}
	return n
}

func (s *State) assume(f *Term) {
	if f.Op == "and" {
		for _, a := range f.Args {
			s.assume(a)
		}
		return
	}
	s.pc = s.pc.push(f)
}

// known reports whether f is literally one of the facts on the current path (cheap syntactic check that spares
// re-proving and re-assuming global invariants at every call).
func (s *State) known(f *Term) bool {
	if f.Op != "forall" && termSize(f, 30) < 30 {
		return false
	}
	fs := f.String()
	for q := s.pc; q != nil; q = q.parent {
		if q.fact == f || (q.fact.Op == f.Op && len(q.fact.str) == len(fs) && q.fact.String() == fs) {
			return true
		}
		if q.fact.Op == f.Op && q.fact.str == "" && q.fact.String() == fs {
			return true
		}
	}
	return false
}

// heapArr returns the current version of a heap array, creating the entry version lazily.
func (vc *VC) heapArr(s *State, name string, sort *Sort) *Term {
	if t, ok := s.heap[name]; ok {
		return t
	}
	// lazily created version for this havoc epoch, shared across all states of this function run
	key := name + "@" + s.epoch
	if t, ok := vc.heap0[key]; ok {
		s.heap[name] = t
		return t
	}
	t := Const(smtName(name)+"@e"+s.epoch+"."+vc.runTag, sort)
	vc.heap0[key] = t
	vc.heapSorts[name] = sort
	s.heap[name] = t
	if a := vc.epochAlloc[s.epoch]; a != nil {
		if f := vc.rootFact(name, t, a); f != True {
			vc.bgFacts = append(vc.bgFacts, f)
		}
	}
	return t
}

// mergeStates merges several states (which share a common PC ancestor) into one.
func (vc *VC) mergeStates(states []*State) *State {
	var live []*State
	for _, s := range states {
		if s != nil && !s.dead {
			live = append(live, s)
		}
	}
	if len(live) == 0 {
		return nil
	}
	if len(live) == 1 {
		return live[0]
	}
	base := live[0].pc
	for _, s := range live[1:] {
		base = lca(base, s.pc)
	}
	guards := make([]*Term, len(live))
	m := &State{env: map[types.Object]*Term{}, ghost: map[string]*Term{}, heap: map[string]*Term{}}
	m.epoch = live[0].epoch
	for _, s := range live[1:] {
		if s.epoch != m.epoch {
			vc.epochCtr++
			m.epoch = fmt.Sprintf("m%d", vc.epochCtr)
			break
		}
	}
	if pureMode {
		for i, s := range live {
			guards[i] = factsSince(s.pc, base)
		}
		m.pc = base.push(Or(guards...))
	} else {
		// linear encoding: a fresh selector per branch implies each of the branch's facts (one copy of every fact)
		m.pc = base
		for i, s := range live {
			g := Fresh("g", SBool)
			guards[i] = g
			var fs []*Term
			for q := s.pc; q != base && q != nil; q = q.parent {
				fs = append(fs, q.fact)
			}
			for j := len(fs) - 1; j >= 0; j-- {
				m.pc = m.pc.push(Implies(g, fs[j]))
			}
		}
		m.pc = m.pc.push(Or(guards...))
	}
	mergeVal := func(hint string, vals []*Term) *Term {
		first := vals[0]
		same := true
		for _, v := range vals[1:] {
			if v != first {
				same = false
				break
			}
		}
		if same {
			return first
		}
		if pureMode {
			r := vals[len(vals)-1]
			for i := len(vals) - 2; i >= 0; i-- {
				r = Ite(guards[i], vals[i], r)
			}
			return r
		}
		// two-way: ite
		if len(vals) == 2 {
			if first.Sort != vals[1].Sort {
				panic(fmt.Sprintf("merge %s: sort mismatch %s vs %s", hint, first.Sort.S, vals[1].Sort.S))
			}
			v := Fresh("m."+hint, first.Sort)
			m.pc = m.pc.push(Eq(v, Ite(guards[0], vals[0], vals[1])))
			return v
		}
		v := Fresh("m."+hint, first.Sort)
		for i, x := range vals {
			m.pc = m.pc.push(Implies(guards[i], Eq(v, x)))
		}
		return v
	}
	// env: keys present in all
	keys := map[types.Object]bool{}
	for k := range live[0].env {
		keys[k] = true
	}
	var ks []types.Object
	for k := range keys {
		ok := true
		for _, s := range live[1:] {
			if _, has := s.env[k]; !has {
				ok = false
				break
			}
		}
		if ok {
			ks = append(ks, k)
		}
	}
	sort.Slice(ks, func(i, j int) bool { return ks[i].Pos() < ks[j].Pos() })
	for _, k := range ks {
		vals := make([]*Term, len(live))
		for i, s := range live {
			vals[i] = s.env[k]
		}
		m.env[k] = mergeVal(k.Name(), vals)
	}
	gk := map[string]bool{}
	for k := range live[0].ghost {
		gk[k] = true
	}
	// call records ($call.*) made on some branches only: the count defaults to 0, arguments/results to an
	// unconstrained value of the same sort
	for _, st := range live {
		for k, v := range st.ghost {
			if !strings.HasPrefix(k, "$call.") {
				continue
			}
			for _, o := range live {
				if _, has := o.ghost[k]; !has {
					if strings.HasSuffix(k, ".n") {
						o.ghost[k] = IntLit(0)
					} else {
						o.ghost[k] = Fresh("nocall", v.Sort)
					}
				}
			}
			gk[k] = true
		}
	}
	var gks []string
	for k := range gk {
		ok := true
		for _, s := range live[1:] {
			if _, has := s.ghost[k]; !has {
				ok = false
				break
			}
		}
		if ok {
			gks = append(gks, k)
		}
	}
	sort.Strings(gks)
	for _, k := range gks {
		vals := make([]*Term, len(live))
		for i, s := range live {
			vals[i] = s.ghost[k]
		}
		m.ghost[k] = mergeVal(strings.TrimPrefix(k, "$"), vals)
	}
	hk := map[string]bool{}
	for _, s := range live {
		for k := range s.heap {
			hk[k] = true
		}
	}
	var hks []string
	for k := range hk {
		hks = append(hks, k)
	}
	sort.Strings(hks)
	for _, k := range hks {
		vals := make([]*Term, len(live))
		for i, s := range live {
			vals[i] = vc.heapArr(s, k, vc.heapSorts[k])
		}
		m.heap[k] = mergeVal(k, vals)
	}
	allocs := make([]*Term, len(live))
	for i, s := range live {
		allocs[i] = s.alloc
	}
	m.alloc = mergeVal("alloc", allocs)
	// results / panic values
	if live[0].result != nil {
		n := len(live[0].result)
		m.result = make([]*Term, n)
		for j := 0; j < n; j++ {
			vals := make([]*Term, len(live))
			for i, s := range live {
				vals[i] = s.result[j]
			}
			m.result[j] = mergeVal(fmt.Sprintf("res%d", j), vals)
		}
	}
	if live[0].panicV != nil {
		vals := make([]*Term, len(live))
		for i, s := range live {
			vals[i] = s.panicV
		}
		m.panicV = mergeVal("panicv", vals)
	}
	return m
}

func termSize(t *Term, limit int) int {
	n := 1
	for _, a := range t.Args {
		n += termSize(a, limit-n)
		if n >= limit {
			return n
		}
	}
	return n
}

// name introduces a fresh constant for a large term (passive form) to keep VCs linear.
func (s *State) name(hint string, t *Term) *Term {
	if pureMode {
		return t
	}
	if t.D != nil && len(t.Args) == 0 {
		return t
	}
	if t.Op == "lit" {
		return t
	}
	if termSize(t, 6) < 6 {
		return t
	}
	c := Fresh(hint, t.Sort)
	s.assume(Eq(c, t))
	return c
}
