package main

// Calls: conversions, builtins, inlining, contracts, library models, havoc.

import (
	"fmt"
	"go/ast"
	"go/token"
	"go/types"
	"strings"
)

func (vc *VC) evalCall(s *State, call *ast.CallExpr, want int) []*Term {
	res := vc.evalCall1(s, call, want)
	if len(vc.frames) == 1 && vc.fn.Spec != nil && vc.fn.Spec.Propagates && !s.dead {
		vc.trackFailure(s, call, res)
	}
	return res
}

// trackFailure implements the ghost flag of the `propagates` clause: it becomes true when a callee returns a
// non-nil error or a *plugin.Response that carries a non-empty error message.
func (vc *VC) trackFailure(s *State, call *ast.CallExpr, res []*Term) {
	t := vc.frame().info.TypeOf(call)
	if t == nil {
		return
	}
	var ts []types.Type
	if tup, ok := t.(*types.Tuple); ok {
		for i := 0; i < tup.Len(); i++ {
			ts = append(ts, tup.At(i).Type())
		}
	} else {
		ts = []types.Type{t}
	}
	if len(ts) != len(res) {
		return
	}
	failed := s.ghost["$failed"]
	if failed == nil {
		failed = False
	}
	for i, rt := range ts {
		if types.TypeString(rt, nil) == "error" {
			failed = Or(failed, Not(Eq(res[i], IntLit(0))))
		}
		if p, ok := rt.(*types.Pointer); ok {
			if n, ok := p.Elem().(*types.Named); ok && n.Obj().Name() == "Response" && n.Obj().Pkg() != nil && strings.HasSuffix(n.Obj().Pkg().Path(), "/plugin") {
				st, _ := isStructType(n)
				for j := 0; j < st.NumFields(); j++ {
					if st.Field(j).Name() == "Error" {
						_, arr := vc.fieldArr(s, n, st.Field(j))
						ep := Select(arr, res[i])
						_, box := vc.boxArr(s, types.Typ[types.String])
						failed = Or(failed, And(Not(Eq(res[i], IntLit(0))), Not(Eq(ep, IntLit(0))), Not(Eq(Select(box, ep), strLit("")))))
					}
				}
			}
		}
	}
	s.ghost["$failed"] = s.name("failed", failed)
	vc.ghostTypes["$failed"] = types.Typ[types.Bool]
}

func (vc *VC) evalCall1(s *State, call *ast.CallExpr, want int) []*Term {
	info := vc.frame().info
	if len(vc.frames) == 1 && vc.fn.Spec != nil && vc.curStmt != nil && (len(vc.fn.Spec.Asserts) > 0 || len(vc.fn.Spec.SiteKFs) > 0) {
		vc.siteClauses(s, "call:"+exprStr(call.Fun), vc.curStmt)
	}
	// conversion
	if tv, ok := info.Types[call.Fun]; ok && tv.IsType() {
		return []*Term{vc.evalConversion(s, call, tv.Type)}
	}
	fun := ast.Unparen(call.Fun)
	switch f := fun.(type) {
	case *ast.Ident:
		switch o := info.ObjectOf(f).(type) {
		case *types.Builtin:
			return vc.evalBuiltin(s, call, o.Name(), want)
		case *types.Func:
			return vc.callStatic(s, call, o, nil, nil)
		case *types.Var:
			if lit, ok := vc.closures[o]; ok {
				args := vc.evalArgs(s, call, info.TypeOf(lit).(*types.Signature))
				return vc.inlineLit(s, lit, args, call)
			}
			if lit := vc.globalFuncLit(o, info); lit != nil {
				vc.prog.Assumed["package-level function variable "+o.Pkg().Name()+"."+o.Name()+" keeps its initial value (never assigned or address-taken in the module; checked syntactically)"] = true
				args := vc.evalArgs(s, call, info.TypeOf(lit).(*types.Signature))
				return vc.inlineLit(s, lit, args, call)
			}
		}
	case *ast.FuncLit:
		args := vc.evalArgs(s, call, info.TypeOf(f).(*types.Signature))
		return vc.inlineLit(s, f, args, call)
	case *ast.SelectorExpr:
		if sel, ok := info.Selections[f]; ok {
			if sel.Kind() == types.MethodVal {
				m := sel.Obj().(*types.Func)
				if _, isIface := sel.Recv().Underlying().(*types.Interface); isIface {
					recv := vc.eval(s, f.X)
					return vc.callDynamic(s, call, m, recv)
				}
				recv := vc.methodRecv(s, f, sel, m)
				return vc.callStatic(s, call, m, recv, f)
			}
			// field of function type
			if sel.Kind() == types.FieldVal {
				fld := sel.Obj().(*types.Var)
				key := vc.fieldFuncKey(sel, fld)
				if spec, ok := vc.prog.Specs[key]; ok {
					vc.eval(s, f) // evaluate the function value (nil checks along the path)
					sig := fld.Type().Underlying().(*types.Signature)
					args := vc.evalArgs(s, call, sig)
					return vc.applySpecNoBody(s, call, key, spec, sig, nil, args)
				}
			}
		} else if o, ok := info.ObjectOf(f.Sel).(*types.Func); ok {
			return vc.callStatic(s, call, o, nil, nil)
		}
	}
	// context.CancelFunc values: calling them has no effect on program state (assumed)
	if n, ok := vc.typeOf(call.Fun).(*types.Named); ok && n.Obj().Name() == "CancelFunc" && n.Obj().Pkg() != nil && n.Obj().Pkg().Path() == "context" {
		vc.eval(s, call.Fun)
		vc.prog.Assumed["calling a context.CancelFunc does not modify program state"] = true
		return nil
	}
	// dynamic call through a function value
	fv := vc.eval(s, call.Fun)
	_ = fv
	sig, ok := vc.typeOf(call.Fun).Underlying().(*types.Signature)
	if !ok {
		vc.unsupported(call, "call of non-function")
	}
	args := vc.evalArgs(s, call, sig)
	vc.recordCall(s, exprStr(call.Fun), sig, args, nil)
	res := vc.havocCall(s, call, "dynamic call "+exprStr(call.Fun), sig)
	vc.recordCall(s, exprStr(call.Fun), sig, nil, res)
	return res
}

// recordCall keeps a ghost record of the most recent call of an opaque callee (a function value or an interface
// method without contract), under the callee expression's source text: number of calls so far, the arguments and
// the results of the last one. Spec builtins ncalls("f"), callarg("f", i), callret("f", i) read it.
func (vc *VC) recordCall(s *State, name string, sig *types.Signature, args, res []*Term) {
	if vc.fn == nil || vc.fn.Spec == nil || !vc.fn.Spec.WatchCalls[name] {
		return // only callees the contract under verification talks about
	}
	k := "$call." + name
	if res == nil {
		// before the call: count it, keep the arguments; the results of a call that panics are unconstrained
		s.ghost[k+".n"] = Add(ghostInt(s, k+".n"), IntLit(1))
		vc.ghostTypes[k+".n"] = types.Typ[types.Int]
		for i := 0; i < sig.Results().Len(); i++ {
			t := sig.Results().At(i).Type()
			s.ghost[fmt.Sprintf("%s.ret%d", k, i)] = Fresh("noret", sortOf(t))
			vc.ghostTypes[fmt.Sprintf("%s.ret%d", k, i)] = t
		}
	}
	for i, a := range args {
		if i < sig.Params().Len() {
			s.ghost[fmt.Sprintf("%s.arg%d", k, i)] = a
			vc.ghostTypes[fmt.Sprintf("%s.arg%d", k, i)] = sig.Params().At(i).Type()
		}
	}
	for i, r := range res {
		s.ghost[fmt.Sprintf("%s.ret%d", k, i)] = r
		vc.ghostTypes[fmt.Sprintf("%s.ret%d", k, i)] = sig.Results().At(i).Type()
	}
}

func (vc *VC) fieldFuncKey(sel *types.Selection, fld *types.Var) string {
	t := sel.Recv()
	if p, ok := t.Underlying().(*types.Pointer); ok {
		t = p.Elem()
	}
	// find the struct type that directly declares the field (walk embedded path)
	idx := sel.Index()
	for _, i := range idx[:len(idx)-1] {
		st, _ := isStructType(t)
		t = st.Field(i).Type()
		if p, ok := t.Underlying().(*types.Pointer); ok {
			t = p.Elem()
		}
	}
	if n, ok := t.(*types.Named); ok && n.Obj().Pkg() != nil {
		return n.Obj().Pkg().Path() + "." + n.Obj().Name() + "." + fld.Name()
	}
	return "?." + fld.Name()
}

func funcKey(fn *types.Func) string {
	sig := fn.Type().(*types.Signature)
	pkg := ""
	if fn.Pkg() != nil {
		pkg = fn.Pkg().Path()
	}
	if sig.Recv() != nil {
		t := sig.Recv().Type()
		if p, ok := t.(*types.Pointer); ok {
			t = p.Elem()
		}
		if n, ok := t.(*types.Named); ok {
			return pkg + "." + n.Obj().Name() + "." + fn.Name()
		}
		if _, ok := t.Underlying().(*types.Interface); ok {
			return pkg + ".?iface." + fn.Name()
		}
	}
	return pkg + "." + fn.Name()
}

// methodRecv computes the receiver argument for a static method call x.M().
func (vc *VC) methodRecv(s *State, f *ast.SelectorExpr, sel *types.Selection, m *types.Func) *Term {
	sig := m.Type().(*types.Signature)
	_, wantPtr := sig.Recv().Type().Underlying().(*types.Pointer)
	path := sel.Index()
	xt := vc.typeOf(f.X)
	// walk embedded fields (all but the last index, which is the method)
	embedded := path[:len(path)-1]
	if len(embedded) == 0 {
		_, havePtr := xt.Underlying().(*types.Pointer)
		switch {
		case wantPtr && havePtr, !wantPtr && !havePtr:
			return vc.eval(s, f.X)
		case wantPtr && !havePtr:
			// need &x
			return vc.addrOfExpr(s, f.X)
		default: // have pointer, want value
			p := vc.eval(s, f.X)
			vc.nonNil(s, p, vc.siteName("field", f), exprStr(f), f.Pos())
			return vc.loadPtr(s, xt.Underlying().(*types.Pointer).Elem(), p)
		}
	}
	base := vc.eval(s, f.X)
	// walk to embedded field value
	cur, ct := base, xt
	for i, idx := range embedded {
		last := i == len(embedded)-1
		if p, ok := ct.Underlying().(*types.Pointer); ok {
			st, _ := isStructType(p.Elem())
			fld := st.Field(idx)
			vc.nonNil(s, cur, vc.siteName("field", f), exprStr(f), f.Pos())
			if last && wantPtr {
				if _, isP := fld.Type().Underlying().(*types.Pointer); !isP {
					if sp, ok := vc.prog.Specs[funcKey(m)]; ok && sp.Trusted {
						// trusted method on an embedded struct value: the receiver is an opaque interior reference
						return vc.allocRef(s, "interior", nil)
					}
					vc.unsupported(f, "pointer-receiver method on embedded struct value (interior pointer)")
				}
			}
			cur = vc.loadField(s, p.Elem(), fld, cur)
			ct = fld.Type()
		} else {
			st, _ := isStructType(ct)
			fld := st.Field(idx)
			cur = Sel(cur, fieldSelName(fld))
			ct = fld.Type()
		}
	}
	_, havePtr := ct.Underlying().(*types.Pointer)
	if wantPtr && !havePtr {
		if sp, ok := vc.prog.Specs[funcKey(m)]; ok && sp.Trusted {
			return vc.allocRef(s, "interior", nil)
		}
		vc.unsupported(f, "pointer-receiver method on embedded struct value")
	}
	if !wantPtr && havePtr {
		vc.nonNil(s, cur, vc.siteName("field", f), exprStr(f), f.Pos())
		return vc.loadPtr(s, ct.Underlying().(*types.Pointer).Elem(), cur)
	}
	return cur
}

func (vc *VC) addrOfExpr(s *State, e ast.Expr) *Term {
	switch y := ast.Unparen(e).(type) {
	case *ast.Ident:
		obj := vc.frame().info.ObjectOf(y)
		if vc.boxed[obj] {
			if r, ok := s.env[obj]; ok {
				return r
			}
		}
		if v, ok := obj.(*types.Var); ok && v.Pkg() != nil && v.Parent() == v.Pkg().Scope() && vc.prog.AddrTakenGlobals[v] {
			return vc.globalAddr(v)
		}
		vc.unsupported(e, "implicit address of unboxed variable "+y.Name)
	case *ast.StarExpr:
		return vc.eval(s, y.X)
	}
	vc.unsupported(e, "implicit address-of for pointer receiver: "+exprStr(e))
	return nil
}

// evalArgs evaluates call arguments against a signature, packing variadics.
func (vc *VC) evalArgs(s *State, call *ast.CallExpr, sig *types.Signature) []*Term {
	np := sig.Params().Len()
	var out []*Term
	// f(g()) with multi-value g
	if len(call.Args) == 1 && np > 1 {
		if tup, ok := vc.typeOf(call.Args[0]).(*types.Tuple); ok {
			vs := vc.evalMulti(s, call.Args[0], tup.Len())
			return vs
		}
	}
	for i, a := range call.Args {
		if sig.Variadic() && i >= np-1 {
			break
		}
		out = append(out, vc.evalTo(s, a, sig.Params().At(i).Type()))
	}
	if sig.Variadic() {
		st := sig.Params().At(np - 1).Type().(*types.Slice)
		if call.Ellipsis.IsValid() {
			out = append(out, vc.eval(s, call.Args[np-1]))
		} else {
			srt := sortOf(st)
			rest := call.Args[np-1:]
			if len(rest) == 0 {
				out = append(out, nilSlice(srt))
			} else {
				elems := Sel(nilSlice(srt), "elems")
				for j, a := range rest {
					elems = Store(elems, IntLit(int64(j)), vc.evalTo(s, a, st.Elem()))
				}
				out = append(out, mkSlice(srt, s.name("va", elems), IntLit(int64(len(rest))), IntLit(int64(len(rest))), False))
			}
		}
	}
	return out
}

func (vc *VC) evalConversion(s *State, call *ast.CallExpr, to types.Type) *Term {
	from := vc.typeOf(call.Args[0])
	v := vc.eval(s, call.Args[0])
	fs, ts := sortOf(from), sortOf(to)
	if _, isI := to.Underlying().(*types.Interface); isI {
		return vc.convertForAssign(s, v, from, to, call)
	}
	switch {
	case fs == SInt && ts == SInt:
		if _, _, ok := intBits(from); ok {
			if _, _, ok2 := intBits(to); ok2 {
				return vc.convInt(s, from, to, v)
			}
		}
		return v
	case fs == ts:
		return v
	case fs == SStr && isSliceSort(ts): // []byte(s)
		vc.prog.Assumed["string<->[]byte conversion preserves bytes (uninterpreted bijection)"] = true
		r := vc.loaded(s, to, App("conv.str2bytes", ts, v), "b")
		s.assume(Eq(sliceLen(r), strLen(v)))
		s.assume(Not(Sel(r, "isnil")))
		return r
	case isSliceSort(fs) && ts == SStr:
		if sl, ok := from.Underlying().(*types.Slice); ok {
			if b, ok := sl.Elem().Underlying().(*types.Basic); ok && b.Kind() != types.Uint8 {
				// string([]rune): UTF-8 encoding, a function of the runes in [0, len) (extensionality axiom in sorts.go);
				// one to four bytes per rune
				vc.prog.Assumed["string([]rune) is a function of the runes; its length is between len and 4*len"] = true
				r := s.name("r2s", App("conv.runes2str", ts, sliceElems(v), sliceLen(v)))
				s.assume(And(Le(sliceLen(v), strLen(r)), Le(strLen(r), op("*", SInt, IntLit(4), sliceLen(v)))))
				return r
			}
		}
		vc.prog.Assumed["string<->[]byte conversion preserves bytes (uninterpreted bijection)"] = true
		r := s.name("b2s", App("conv.bytes2str", ts, sliceElems(v), sliceLen(v)))
		s.assume(Eq(strLen(r), sliceLen(v)))
		bi := BoundVar("bi", SInt)
		s.assume(Forall([]*Term{bi}, Implies(And(Le(IntLit(0), bi), Lt(bi, sliceLen(v))), Eq(strAt(r, bi), Select(sliceElems(v), bi))), []*Term{strAt(r, bi)}))
		return r
	case fs == SInt && ts == SStr:
		return App("conv.rune2str", SStr, v)
	case fs == SInt && ts == SFloat:
		return App("conv.int2flt", SFloat, v)
	case fs == SFloat && ts == SInt:
		return vc.loaded(s, to, App("conv.flt2int."+typeKey(to), SInt, v), "f2i")
	}
	vc.unsupported(call, "conversion "+from.String()+" -> "+to.String())
	return nil
}

func (vc *VC) evalBuiltin(s *State, call *ast.CallExpr, name string, want int) []*Term {
	switch name {
	case "len", "cap":
		t := vc.typeOf(call.Args[0])
		v := vc.eval(s, call.Args[0])
		switch u := t.Underlying().(type) {
		case *types.Basic:
			return []*Term{strLen(v)}
		case *types.Slice:
			if name == "cap" {
				return []*Term{Sel(v, "cap")}
			}
			return []*Term{sliceLen(v)}
		case *types.Array:
			return []*Term{IntLit(u.Len())}
		case *types.Map:
			return []*Term{vc.mapLen(s, u, v)}
		case *types.Pointer:
			if at, ok := u.Elem().Underlying().(*types.Array); ok {
				return []*Term{IntLit(at.Len())}
			}
		case *types.Chan:
			l := Fresh("chanlen", SInt)
			s.assume(Ge(l, IntLit(0)))
			return []*Term{l}
		}
		vc.unsupported(call, name+" of "+t.String())
	case "append":
		return []*Term{vc.evalAppend(s, call)}
	case "make":
		t := vc.typeOf(call.Args[0])
		switch u := t.Underlying().(type) {
		case *types.Map:
			if len(call.Args) > 1 {
				vc.eval(s, call.Args[1])
			}
			return []*Term{vc.mapMake(s, u)}
		case *types.Slice:
			n := vc.eval(s, call.Args[1])
			c := n
			if len(call.Args) > 2 {
				c = vc.eval(s, call.Args[2])
			}
			vc.oblige(s, "safety", vc.siteName("call.make", call), "make: negative or inconsistent size", call.Pos(), And(Le(IntLit(0), n), Le(n, c)))
			srt := sortOf(t)
			return []*Term{mkSlice(srt, ConstArr(ArraySort(SInt, sortOf(u.Elem())), zeroValue(u.Elem())), n, c, False)}
		case *types.Chan:
			c := IntLit(0)
			if len(call.Args) > 1 {
				c = vc.eval(s, call.Args[1])
			}
			r := vc.allocRef(s, "chan", nil)
			vc.ghostSet(s, "chcap", r, c)
			vc.ghostSet(s, "sent", r, IntLit(0))
			vc.ghostSet(s, "recvd", r, IntLit(0))
			return []*Term{r}
		}
	case "new":
		t := vc.typeOf(call.Args[0])
		return []*Term{vc.newObject(s, t, zeroValue(t))}
	case "delete":
		mt := vc.typeOf(call.Args[0]).Underlying().(*types.Map)
		m := vc.eval(s, call.Args[0])
		k := vc.eval(s, call.Args[1])
		vc.mapDelete(s, mt, m, k)
		return nil
	case "panic":
		v := vc.evalTo(s, call.Args[0], types.NewInterfaceType(nil, nil))
		vc.doPanic(s, call, v)
		return nil
	case "recover":
		fr := vc.frame()
		// recover() is meaningful only in a deferred literal; find the frame running defers
		for i := len(vc.frames) - 1; i >= 0; i-- {
			if vc.frames[i].runningDefers {
				fr = vc.frames[i]
				if fr.recoverV != nil {
					v := fr.recoverV
					fr.recovered = true
					return []*Term{v}
				}
				return []*Term{IntLit(0)}
			}
		}
		if len(vc.frames) == 1 && vc.fn.Spec != nil && vc.fn.Spec.DeferredHandler {
			// the function under verification is itself run as a deferred call: recover() may return any value
			r := Fresh("recovered", SInt)
			s.assume(Ge(r, IntLit(0)))
			s.ghost["$recovered"] = Not(Eq(r, IntLit(0)))
			vc.ghostTypes["$recovered"] = types.Typ[types.Bool]
			return []*Term{r}
		}
		return []*Term{IntLit(0)}
	case "copy":
		dt := vc.typeOf(call.Args[0])
		d := vc.eval(s, call.Args[0])
		src := vc.eval(s, call.Args[1])
		var sl *Term
		i := BoundVar("ci", SInt)
		var srcAt *Term
		if src.Sort == SStr {
			sl = strLen(src)
			srcAt = strAt(src, i)
		} else {
			sl = sliceLen(src)
			srcAt = Select(sliceElems(src), i)
		}
		n := s.name("ncopy", Ite(Lt(sliceLen(d), sl), sliceLen(d), sl))
		vc.prog.Abstracted["copy() under slice value semantics in "+shortKey(vc.fn.Key)] = true
		switch ast.Unparen(call.Args[0]).(type) {
		case *ast.Ident, *ast.SelectorExpr, *ast.IndexExpr, *ast.StarExpr:
			ne := Fresh("copied", sliceElems(d).Sort)
			s.assume(Forall([]*Term{i}, Eq(Select(ne, i), Ite(And(Le(IntLit(0), i), Lt(i, n)), srcAt, Select(sliceElems(d), i))), []*Term{Select(ne, i)}))
			vc.assign(s, call.Args[0], Upd(d, "elems", ne))
		default:
			// destination is a slice expression (a view into another slice): the bytes land in the backing array,
			// which value-semantics slices do not share; only the count is modelled
		}
		_ = dt
		return []*Term{n}
	case "print", "println":
		for _, a := range call.Args {
			vc.eval(s, a)
		}
		return nil
	case "min", "max":
		a := vc.eval(s, call.Args[0])
		b := vc.eval(s, call.Args[1])
		if name == "min" {
			return []*Term{Ite(Lt(a, b), a, b)}
		}
		return []*Term{Ite(Lt(a, b), b, a)}
	}
	vc.unsupported(call, "builtin "+name)
	return nil
}

func (vc *VC) evalAppend(s *State, call *ast.CallExpr) *Term {
	st := vc.typeOf(call).Underlying().(*types.Slice)
	base := vc.eval(s, call.Args[0])
	srt := sortOf(vc.typeOf(call))
	if base.Sort != srt {
		vc.unsupported(call, "append sort mismatch")
	}
	if len(call.Args) == 1 {
		return base
	}
	newCap := func(nl *Term) *Term {
		c := Fresh("cap", SInt)
		s.assume(Ge(c, nl))
		return c
	}
	if call.Ellipsis.IsValid() {
		extra := vc.eval(s, call.Args[1])
		if extra.Sort == SStr {
			// append([]byte, string...)
			ne := Fresh("app", sliceElems(base).Sort)
			i := BoundVar("ai", SInt)
			bl := sliceLen(base)
			el := strLen(extra)
			s.assume(Forall([]*Term{i}, Eq(Select(ne, i), Ite(Lt(i, bl), Select(sliceElems(base), i), strAt(extra, Sub(i, bl)))), []*Term{Select(ne, i)}))
			nl := s.name("len", Add(bl, el))
			return mkSlice(srt, ne, nl, newCap(nl), And(Sel(base, "isnil"), Eq(el, IntLit(0))))
		}
		ne := Fresh("app", sliceElems(base).Sort)
		i := BoundVar("ai", SInt)
		bl := sliceLen(base)
		el := sliceLen(extra)
		s.assume(Forall([]*Term{i}, Eq(Select(ne, i), Ite(Lt(i, bl), Select(sliceElems(base), i), Select(sliceElems(extra), Sub(i, bl)))), []*Term{Select(ne, i)}))
		// the same fact for the prefix, triggered from the base slice (no arithmetic in the instance: no matching loop)
		j := BoundVar("aj", SInt)
		if !(base.Op == "ctor" && base.Args[1].Op == "lit") {
			s.assume(Forall([]*Term{j}, Implies(And(Le(IntLit(0), j), Lt(j, bl)), Eq(Select(ne, j), Select(sliceElems(base), j))), []*Term{Select(sliceElems(base), j)}))
		}
		nl := s.name("len", Add(bl, el))
		return mkSlice(srt, ne, nl, newCap(nl), And(Sel(base, "isnil"), Eq(el, IntLit(0))))
	}
	elems := sliceElems(base)
	l := sliceLen(base)
	for _, a := range call.Args[1:] {
		v := vc.evalTo(s, a, st.Elem())
		elems = Store(elems, l, v)
		l = Add(l, IntLit(1))
	}
	nl := s.name("len", l)
	return mkSlice(srt, s.name("app", elems), nl, newCap(nl), False)
}

// doPanic handles an explicit panic(v).
func (vc *VC) doPanic(s *State, n ast.Node, v *Term) {
	for i := len(vc.frames) - 1; i >= 0; i-- {
		fr := vc.frames[i]
		if len(fr.defers) > 0 || (fr.fn != nil && fr.fn.Spec != nil && fr.fn.Spec.MayPanic && i == 0) {
			ps := s.clone()
			ps.panicV = v
			vc.frame().panics = append(vc.frame().panics, ps)
			s.dead = true
			return
		}
	}
	vc.oblige(s, "safety", vc.siteName("call.panic", n), "explicit panic reachable", n.Pos(), False)
	s.dead = true
}

// ---------- static calls ----------

func (vc *VC) callStatic(s *State, call *ast.CallExpr, fn *types.Func, recv *Term, sel *ast.SelectorExpr) []*Term {
	sig := fn.Type().(*types.Signature)
	args := vc.evalArgs(s, call, sig)
	key := funcKey(fn)
	fi := vc.prog.ByObj[fn]
	spec := vc.prog.Specs[key]
	if spec != nil && !spec.Inline {
		return vc.applySpecNoBody(s, call, key, spec, sig, recv, args)
	}
	if model, ok := stdModels[key]; ok {
		vc.lastRecv = recv
		vc.recordCall(s, exprStr(call.Fun), sig, args, nil)
		res := model(vc, s, call, args)
		if len(res) == sig.Results().Len() {
			vc.recordCall(s, exprStr(call.Fun), sig, nil, res)
		}
		return res
	}
	if fi != nil && fi.Decl != nil && fi.Decl.Body != nil && vc.canInline(fi) {
		vc.prog.Inlined[shortKey(key)] = true
		return vc.inlineFunc(s, fi, recv, args, call)
	}
	if isPureStd(key) {
		return vc.pureStdCall(s, call, key, sig, recv, args)
	}
	vc.recordCall(s, exprStr(call.Fun), sig, args, nil)
	res := vc.havocCall(s, call, "uncontracted call "+shortKey(key), sig)
	vc.recordCall(s, exprStr(call.Fun), sig, nil, res)
	return res
}

func (vc *VC) callDynamic(s *State, call *ast.CallExpr, m *types.Func, recv *Term) []*Term {
	sig := m.Type().(*types.Signature)
	args := vc.evalArgs(s, call, sig)
	// interface method contract: keyed by pkg.Iface.Method
	key := ""
	if m.Pkg() != nil {
		if n := ifaceNameOf(m); n != "" {
			key = m.Pkg().Path() + "." + n + "." + m.Name()
		}
	}
	if key == "" && m.Name() == "Error" {
		key = "error.Error"
	}
	if spec, ok := vc.prog.Specs[key]; ok {
		return vc.applySpecNoBody(s, call, key, spec, sig, recv, args)
	}
	if key == "error.Error" {
		return []*Term{App("error.Error", SStr, recv)}
	}
	vc.recordCall(s, exprStr(call.Fun), sig, args, nil)
	res := vc.havocCall(s, call, "interface method call "+exprStr(call.Fun), sig)
	vc.recordCall(s, exprStr(call.Fun), sig, nil, res)
	return res
}

func ifaceNameOf(m *types.Func) string {
	sig := m.Type().(*types.Signature)
	if sig.Recv() == nil {
		return ""
	}
	if n, ok := sig.Recv().Type().(*types.Named); ok {
		return n.Obj().Name()
	}
	return ""
}

func (vc *VC) canInline(fi *FuncInfo) bool {
	if vc.inlineDepth >= 6 {
		return false
	}
	if !strings.HasPrefix(fi.Pkg.PkgPath, modulePath) {
		return false // library code is never inlined: it is modelled, assumed pure, or havocs
	}
	for _, fr := range vc.frames {
		if fr.fn == fi {
			return false // recursion
		}
	}
	ok := true
	ast.Inspect(fi.Decl.Body, func(n ast.Node) bool {
		switch n.(type) {
		case *ast.ForStmt, *ast.RangeStmt, *ast.GoStmt, *ast.SelectStmt, *ast.DeferStmt:
			ok = false
		}
		return ok
	})
	return ok
}

func (vc *VC) havocCall(s *State, call *ast.CallExpr, why string, sig *types.Signature) []*Term {
	vc.prog.Uncontracted[why+" in "+shortKey(vc.fn.Key)] = true
	if vc.workerMode {
		// an unknown callee may panic: the goroutine's deferred calls still run
		ps := s.clone()
		ps.panicV = Fresh("panicv", SInt)
		ps.assume(Gt(ps.panicV, IntLit(0)))
		vc.frame().panics = append(vc.frame().panics, ps)
		s.ghost["$fcalls"] = Add(ghostInt(s, "$fcalls"), IntLit(1))
	}
	vc.havocHeap(s, why)
	res := make([]*Term, sig.Results().Len())
	for i := range res {
		t := sig.Results().At(i).Type()
		res[i] = vc.loadedDeep(s, t, Fresh("hv.res", sortOf(t)), "res")
	}
	return res
}

// ---------- inlining ----------

func (vc *VC) inlineFunc(s *State, fi *FuncInfo, recv *Term, args []*Term, call *ast.CallExpr) []*Term {
	sig := fi.Obj.Type().(*types.Signature)
	fr := &Frame{fn: fi, sig: sig, info: fi.Pkg.TypesInfo, pkg: fi.Pkg}
	vc.analyzeBody(fi.Decl.Body, fi.Pkg.TypesInfo, fi.Decl)
	// bind receiver and params
	if fi.Decl.Recv != nil && len(fi.Decl.Recv.List) > 0 && len(fi.Decl.Recv.List[0].Names) > 0 {
		obj := fi.Pkg.TypesInfo.Defs[fi.Decl.Recv.List[0].Names[0]]
		if obj != nil {
			vc.bindParam(s, obj.(*types.Var), recv)
		}
	}
	i := 0
	for _, f := range fi.Decl.Type.Params.List {
		if len(f.Names) == 0 {
			i++
			continue
		}
		for _, nm := range f.Names {
			if obj := fi.Pkg.TypesInfo.Defs[nm]; obj != nil {
				vc.bindParam(s, obj.(*types.Var), args[i])
			}
			i++
		}
	}
	fr.results = vc.bindResults(s, fi.Decl.Type.Results, fi.Pkg.TypesInfo)
	savedPrefix := vc.prefix
	if len(vc.frames) > 0 {
		vc.prefix = vc.prefix + fi.Obj.Name() + ">"
	}
	res := vc.runFrame(s, fr, fi.Decl.Body, sig)
	vc.prefix = savedPrefix
	return res
}

func (vc *VC) inlineLit(s *State, lit *ast.FuncLit, args []*Term, call *ast.CallExpr) []*Term {
	info := vc.frame().info
	sig := info.TypeOf(lit).(*types.Signature)
	fr := &Frame{fn: vc.frame().fn, sig: sig, info: info, isLit: true, pkg: vc.frame().pkg}
	i := 0
	for _, f := range lit.Type.Params.List {
		if len(f.Names) == 0 {
			i++
			continue
		}
		for _, nm := range f.Names {
			if obj := info.Defs[nm]; obj != nil {
				vc.bindParam(s, obj.(*types.Var), args[i])
			}
			i++
		}
	}
	fr.results = vc.bindResults(s, lit.Type.Results, info)
	return vc.runFrame(s, fr, lit.Body, sig)
}

func (vc *VC) bindParam(s *State, o *types.Var, v *Term) {
	if o.Name() == "_" {
		return
	}
	if vc.boxed[o] {
		ref := vc.allocRef(s, o.Name(), typeID(o.Type()))
		s.env[o] = ref
		vc.storePtr(s, o.Type(), ref, v)
		return
	}
	s.env[o] = v
}

func (vc *VC) bindResults(s *State, fl *ast.FieldList, info *types.Info) []*types.Var {
	if fl == nil {
		return nil
	}
	var out []*types.Var
	for _, f := range fl.List {
		for _, nm := range f.Names {
			if obj := info.Defs[nm]; obj != nil {
				v := obj.(*types.Var)
				out = append(out, v)
				vc.bindParam(s, v, zeroValue(v.Type()))
			}
		}
	}
	return out
}

// runFrame executes a function body in a new frame; on return *s is the merged post-call state.
func (vc *VC) runFrame(s *State, fr *Frame, body *ast.BlockStmt, sig *types.Signature) []*Term {
	vc.frames = append(vc.frames, fr)
	vc.inlineDepth++
	defer func() {
		vc.frames = vc.frames[:len(vc.frames)-1]
		vc.inlineDepth--
	}()
	st := s.clone()
	st.result = nil
	end := vc.execBlock(st, body.List)
	if end != nil && !end.dead {
		// implicit return
		r := end
		r.result = vc.namedResultValues(r, fr, sig)
		fr.rets = append(fr.rets, r)
	}
	ret := vc.mergeStates(fr.rets)
	pan := vc.mergeStates(fr.panics)
	// deferred calls
	if len(fr.defers) > 0 {
		fr.runningDefers = true
		if ret != nil {
			fr.recoverV = nil
			ret = vc.runDefers(ret, fr, sig)
		}
		if pan != nil {
			fr.recoverV = pan.panicV
			fr.recovered = false
			pan = vc.runDefers(pan, fr, sig)
			if pan != nil && fr.recovered {
				pan.panicV = nil
				pan.result = vc.namedResultValues(pan, fr, sig)
				ret = vc.mergeStates([]*State{ret, pan})
				pan = nil
			}
		}
		fr.runningDefers = false
	}
	if pan != nil {
		if len(vc.frames) >= 2 {
			parent := vc.frames[len(vc.frames)-2]
			parent.panics = append(parent.panics, pan)
		} else {
			vc.topPanics = append(vc.topPanics, pan)
		}
	}
	if ret == nil {
		s.dead = true
		res := make([]*Term, sig.Results().Len())
		for i := range res {
			res[i] = zeroValue(sig.Results().At(i).Type())
		}
		return res
	}
	res := ret.result
	ret.result = nil
	saved := s.result
	*s = *ret
	s.result = saved
	return res
}

func (vc *VC) namedResultValues(s *State, fr *Frame, sig *types.Signature) []*Term {
	n := sig.Results().Len()
	if n == 0 {
		return []*Term{}
	}
	if len(fr.results) == n {
		out := make([]*Term, n)
		for i, v := range fr.results {
			if vc.boxed[v] {
				out[i] = vc.loadPtr(s, v.Type(), s.env[v])
			} else {
				out[i] = s.env[v]
			}
		}
		return out
	}
	// falling off the end of a function with unnamed results cannot happen in valid Go
	out := make([]*Term, n)
	for i := range out {
		out[i] = zeroValue(sig.Results().At(i).Type())
	}
	return out
}

func (vc *VC) runDefers(s *State, fr *Frame, sig *types.Signature) *State {
	saved := s.result
	for i := len(fr.defers) - 1; i >= 0; i-- {
		d := fr.defers[i]
		// only executed if the defer statement was reached on this path: tracked by ghost flag
		flag := s.ghost[deferFlag(d)]
		if flag == nil || flag == False {
			continue
		}
		run := s.clone()
		run.assume(flag)
		skip := s.clone()
		skip.assume(Not(flag))
		var after *State
		switch f := ast.Unparen(d.Call.Fun).(type) {
		case *ast.FuncLit:
			run.result = nil
			vc.inlineLit(run, f, nil, d.Call)
			after = run
		default:
			// deferred call of a named function: arguments were evaluated at defer time (approximated: evaluated now)
			vc.evalMulti(run, d.Call, 0)
			after = run
		}
		if flag == True {
			s = after
		} else {
			after.result = saved
			skip.result = saved
			s = vc.mergeStates([]*State{after, skip})
		}
		if s == nil {
			return nil
		}
	}
	if len(fr.results) == sig.Results().Len() && len(fr.results) > 0 {
		s.result = vc.namedResultValues(s, fr, sig)
	} else {
		s.result = saved
	}
	return s
}

func deferFlag(d *ast.DeferStmt) string { return fmt.Sprintf("$defer%d", d.Pos()) }

// ---------- contracts at call sites ----------

// applySpecNoBody applies a contract at a call site.
func (vc *VC) applySpecNoBody(s *State, call *ast.CallExpr, key string, spec *FuncSpec, sig *types.Signature, recv *Term, args []*Term) []*Term {
	fi := vc.prog.Funcs[key]
	if spec.Trusted {
		vc.prog.Assumed["contract of "+shortKey(key)+" (trusted, "+relFile(spec.File)+")"] = true
	}
	env := &SpecEnv{vc: vc, st: s, vars: map[string]TV{}, objVals: map[types.Object]*Term{}, what: "contract of " + shortKey(key) + " at " + vc.posStr(call.Pos())}
	if fi != nil {
		env.pkg = fi.Pkg
		if fi.Decl != nil {
			env.scope = fi.Pkg.TypesInfo.Scopes[fi.Decl.Type]
			env.pos = fi.Decl.Body.Lbrace
		}
	} else {
		env.pkg = vc.pkgForKey(key)
	}
	if sig.Recv() != nil && recv != nil {
		env.objVals[sig.Recv()] = recv
		if sig.Recv().Name() != "" {
			env.vars[sig.Recv().Name()] = TV{recv, sig.Recv().Type()}
		}
	}
	for i := 0; i < sig.Params().Len(); i++ {
		p := sig.Params().At(i)
		env.objVals[p] = args[i]
		if p.Name() != "" {
			env.vars[p.Name()] = TV{args[i], p.Type()}
		}
	}
	site := vc.siteName("call", call)
	for i, r := range spec.Requires {
		vc.oblige(s, "call-requires", fmt.Sprintf("%s:pre%d", site, i+1), "precondition of "+shortKey(key)+": "+r.Src, call.Pos(), env.evalBool(r))
	}
	// termination of recursion: a call of a function with a `decreases` measure from a function that has one (the
	// function itself, or a member of the same recursive group) must make the measure smaller and keep it bounded below
	if vc.fn != nil && vc.fn.Spec != nil && vc.fn.Spec.Decreases != nil && spec.Decreases != nil && vc.entry != nil && vc.fn.Decl != nil {
		callerEnv := &SpecEnv{vc: vc, st: vc.entry, vars: map[string]TV{}, objVals: map[types.Object]*Term{}, pkg: vc.fn.Pkg, scope: vc.fn.Pkg.TypesInfo.Scopes[vc.fn.Decl.Type], pos: vc.fn.Decl.Body.Lbrace, what: "decreases of " + shortKey(vc.fn.Key)}
		for o, v := range vc.paramVals {
			callerEnv.objVals[o] = v
		}
		d0 := callerEnv.eval(vc.fn.Spec.Decreases).T
		d1 := env.eval(spec.Decreases).T
		vc.oblige(s, "decreases", site, "recursive call: the measure of "+shortKey(key)+" ("+spec.Decreases.Src+") is smaller than the caller's ("+vc.fn.Spec.Decreases.Src+"), which is not negative", call.Pos(), And(Ge(d0, IntLit(0)), Lt(d1, d0)))
	}
	if call != nil {
		vc.recordCall(s, exprStr(call.Fun), sig, args, nil)
		if sig.Recv() != nil && recv != nil && vc.fn != nil && vc.fn.Spec != nil && vc.fn.Spec.WatchCalls[exprStr(call.Fun)] {
			s.ghost["$call."+exprStr(call.Fun)+".recv"] = recv
			vc.ghostTypes["$call."+exprStr(call.Fun)+".recv"] = sig.Recv().Type()
		}
	}
	pre := s.clone()
	vc.callHavoc(s, spec, fi, env.inState(pre))
	res := make([]*Term, sig.Results().Len())
	post := env.inState(s)
	post.old = pre
	post.vars = map[string]TV{}
	for k, v := range env.vars {
		post.vars[k] = v
	}
	for i := range res {
		rv := sig.Results().At(i)
		t := rv.Type()
		if spec.Pure && !spec.ModAll && len(spec.Modifies) == 0 {
			// deterministic in arguments (and receiver)
			all := args
			if recv != nil {
				all = append([]*Term{recv}, args...)
			}
			res[i] = vc.loaded(s, t, App(fmt.Sprintf("fn.%s.r%d", smtName(shortKey(key)), i), sortOf(t), all...), "res")
		} else {
			res[i] = vc.loadedDeep(s, t, Fresh("res."+lastSeg(key), sortOf(t)), "res")
		}
		post.objVals[rv] = res[i]
		if rv.Name() != "" && rv.Name() != "_" {
			post.vars[rv.Name()] = TV{res[i], t}
		}
		post.vars[fmt.Sprintf("result%d", i)] = TV{res[i], t}
		if i == 0 {
			post.vars["result"] = TV{res[i], t}
		}
	}
	for _, e := range spec.Ensures {
		if spec.Local[e] && (vc.fn == nil || vc.fn.Key != key) {
			continue
		}
		if watchRe.MatchString(e.Src) {
			continue // talks about the callee's own call records: meaningless to a caller
		}
		s.assume(post.evalBool(e))
	}
	if call != nil {
		vc.recordCall(s, exprStr(call.Fun), sig, nil, res)
	}
	return res
}

func (vc *VC) pkgForKey(key string) *packagesPkg {
	// longest package path prefix
	best := ""
	for p := range vc.prog.Pkgs {
		if strings.HasPrefix(key, p+".") && len(p) > len(best) {
			best = p
		}
	}
	return vc.prog.Pkgs[best]
}

func relFile(f string) string {
	if i := strings.Index(f, "/repo/"); i >= 0 {
		return f[i+6:]
	}
	return f
}

var _ = token.NoPos

// globalFuncLit: o is a package-level variable of the current package that is never assigned or address-taken in the
// module and is initialised with a function literal that captures nothing (package scope): calls go to that literal.
func (vc *VC) globalFuncLit(o *types.Var, info *types.Info) *ast.FuncLit {
	if o.Pkg() == nil || o.Parent() != o.Pkg().Scope() || vc.prog.MutableGlobals[o] || vc.prog.AddrTakenGlobals[o] {
		return nil
	}
	p, ok := vc.prog.GlobalInfo[o]
	if !ok || p.TypesInfo != info {
		return nil
	}
	lit, _ := ast.Unparen(vc.prog.GlobalInit[o]).(*ast.FuncLit)
	return lit
}

// initCallRecords: for every callee the contract under verification watches (ncalls / callarg / callret), the record
// starts as "never called": count 0, arguments and results unconstrained values of the callee's parameter and result
// types (found from the call sites in the body).
func (vc *VC) initCallRecords(s *State, body ast.Node, info *types.Info) {
	if vc.fn == nil || vc.fn.Spec == nil || len(vc.fn.Spec.WatchCalls) == 0 || body == nil {
		return
	}
	ast.Inspect(body, func(n ast.Node) bool {
		call, ok := n.(*ast.CallExpr)
		if !ok {
			return true
		}
		name := exprStr(call.Fun)
		if !vc.fn.Spec.WatchCalls[name] {
			return true
		}
		sig, ok := info.TypeOf(call.Fun).Underlying().(*types.Signature)
		if !ok {
			return true
		}
		k := "$call." + name
		if _, done := s.ghost[k+".n"]; done {
			return true
		}
		s.ghost[k+".n"] = IntLit(0)
		vc.ghostTypes[k+".n"] = types.Typ[types.Int]
		if sel, ok := ast.Unparen(call.Fun).(*ast.SelectorExpr); ok {
			if sl := info.Selections[sel]; sl != nil && sl.Kind() == types.MethodVal {
				if msig, ok := sl.Obj().Type().(*types.Signature); ok && msig.Recv() != nil {
					s.ghost[k+".recv"] = Fresh("nocall", sortOf(msig.Recv().Type()))
					vc.ghostTypes[k+".recv"] = msig.Recv().Type()
				}
			}
		}
		for i := 0; i < sig.Params().Len(); i++ {
			t := sig.Params().At(i).Type()
			s.ghost[fmt.Sprintf("%s.arg%d", k, i)] = Fresh("nocall", sortOf(t))
			vc.ghostTypes[fmt.Sprintf("%s.arg%d", k, i)] = t
		}
		for i := 0; i < sig.Results().Len(); i++ {
			t := sig.Results().At(i).Type()
			s.ghost[fmt.Sprintf("%s.ret%d", k, i)] = Fresh("nocall", sortOf(t))
			vc.ghostTypes[fmt.Sprintf("%s.ret%d", k, i)] = t
		}
		return true
	})
}
