package main

// C20: ground obligations over the option table. The table is obtained by executing the package initialiser of
// generator/golang (a closed Go term; the Go runtime is the evaluator) through an injected test file; the
// obligations over it are discharged by the SMT solvers (string theory).

import (
	"encoding/json"
	"fmt"
	"os"
	"os/exec"
	"path/filepath"
	"regexp"
	"strings"
)

const c20Dump = `package golang

import (
	"encoding/json"
	"fmt"
	"reflect"
	"strings"
	"testing"
)

func TestVerifDumpOptionTable(t *testing.T) {
	var names []string
	nonNil := true
	for _, p := range allParams {
		if p == nil || p.action == nil {
			nonNil = false
			continue
		}
		names = append(names, p.name)
	}
	defaults := map[string]bool{}
	tt := reflect.TypeOf(defaultFeatures)
	vv := reflect.ValueOf(defaultFeatures)
	var tags []string
	for i := 0; i < tt.NumField(); i++ {
		n := strings.SplitN(string(tt.Field(i).Tag), ":", 2)[0]
		tags = append(tags, n)
		defaults[n] = vv.Field(i).Bool()
	}
	var backendOpts []string
	for _, o := range (&GoBackend{}).Options() {
		backendOpts = append(backendOpts, o.Name)
	}
	out, _ := json.Marshal(map[string]interface{}{"names": names, "nonnil": nonNil, "defaults": defaults, "tags": tags, "help": backendOpts})
	fmt.Println("VERIFDUMP " + string(out))
}
`

type c20Table struct {
	Names    []string        `json:"names"`
	NonNil   bool            `json:"nonnil"`
	Defaults map[string]bool `json:"defaults"`
	Tags     []string        `json:"tags"`
	Help     []string        `json:"help"`
}

func smtStr(s string) string {
	return "\"" + strings.ReplaceAll(s, "\"", "\"\"") + "\""
}

func init() {
	extraGens["optiontable"] = genOptionTable
}

func genOptionTable(prog *Program, cfg *PropCfg, repo, verif string) ([]*Obligation, []string) {
	tmp, err := os.MkdirTemp("", "govc-c20")
	if err != nil {
		return nil, []string{err.Error()}
	}
	defer os.RemoveAll(tmp)
	tf := filepath.Join(tmp, "zz_verif_dump_test.go")
	os.WriteFile(tf, []byte(c20Dump), 0o644)
	ov := filepath.Join(tmp, "ov.json")
	os.WriteFile(ov, []byte(fmt.Sprintf(`{"Replace":{"%s/generator/golang/zz_verif_dump_test.go":"%s"}}`, repo, tf)), 0o644)
	cmd := exec.Command("go", "test", "-overlay", ov, "-vet=off", "-count=1", "-timeout", "120s", "-run", "TestVerifDumpOptionTable", "-v", "./generator/golang")
	cmd.Dir = repo
	cmd.Env = append(os.Environ(), "GOFLAGS=-mod=mod", "GOPROXY=off", "GOSUMDB=off", "GOTOOLCHAIN=local")
	out, err := cmd.CombinedOutput()
	var tab c20Table
	found := false
	for _, l := range strings.Split(string(out), "\n") {
		if strings.HasPrefix(l, "VERIFDUMP ") {
			if json.Unmarshal([]byte(strings.TrimPrefix(l, "VERIFDUMP ")), &tab) == nil {
				found = true
			}
		}
	}
	if !found {
		return nil, []string{"optiontable: could not evaluate the option table initialiser: " + firstLine(string(out)) + fmt.Sprint(err)}
	}
	prog.Assumed["option table obtained by executing the package initialiser of generator/golang (go test -overlay); the Go runtime is trusted as evaluator of this closed term"] = true
	// README rows
	readme, _ := os.ReadFile(filepath.Join(repo, "README.md"))
	rowRe := regexp.MustCompile("^\\| `([a-z_0-9]+)(=[^`]*)?` \\|([^|]*)\\|")
	type row struct {
		name, def string
	}
	var rows []row
	inTable := false
	for _, l := range strings.Split(string(readme), "\n") {
		if strings.Contains(l, "thrift_import_path=<path>") {
			inTable = true
		}
		if inTable {
			m := rowRe.FindStringSubmatch(l)
			if m == nil {
				if !strings.HasPrefix(l, "|") {
					inTable = false
				}
				continue
			}
			rows = append(rows, row{m[1], strings.TrimSpace(m[3])})
		}
	}
	var obls []*Obligation
	add := func(site, desc, smt string) {
		obls = append(obls, &Obligation{Name: "generator/golang.optiontable#ground:" + site, Kind: "ground", Func: "generator/golang.allParams", Desc: desc, Pos: "generator/golang/option.go", Raw: "(set-logic ALL)\n" + smt + "(check-sat)\n"})
	}
	// G0: the table is well formed (non-nil entries) -- a closed fact, stated as a trivially decidable query
	add("nonnil", "every entry of allParams is non-nil and has an action", fmt.Sprintf("(assert (not %v))\n", tab.NonNil))
	// G1: prefix safety in order: for i<j, name_i is not a prefix of name_j (so a table name always selects its own entry)
	for j := range tab.Names {
		var conj []string
		for i := 0; i < j; i++ {
			conj = append(conj, fmt.Sprintf("(not (str.prefixof %s %s))", smtStr(tab.Names[i]), smtStr(tab.Names[j])))
		}
		if len(conj) == 0 {
			continue
		}
		add("prefix-safe:"+tab.Names[j], "no earlier table entry is a prefix of option "+tab.Names[j]+" (first match selects the entry itself)", "(assert (not (and "+strings.Join(conj, " ")+" true)))\n")
	}
	// G2: pairwise distinct
	if len(tab.Names) > 1 {
		var ds []string
		for _, n := range tab.Names {
			ds = append(ds, smtStr(n))
		}
		add("distinct", "option names are pairwise distinct", "(assert (not (distinct "+strings.Join(ds, " ")+")))\n")
	}
	member := func(x string, set []string) string {
		var alts []string
		for _, n := range set {
			alts = append(alts, fmt.Sprintf("(= %s %s)", smtStr(x), smtStr(n)))
		}
		return "(or false " + strings.Join(alts, " ") + ")"
	}
	// G3/G4: README <-> table
	var rnames []string
	for _, r := range rows {
		rnames = append(rnames, r.name)
		add("documented-accepted:"+r.name, "README option "+r.name+" is in the option table", "(assert (not "+member(r.name, tab.Names)+"))\n")
	}
	if len(rows) == 0 {
		return nil, []string{"optiontable: README option table not found"}
	}
	for _, n := range tab.Names {
		if n == "always_gen_json_tag" { // documented as deprecated in the help text only
			continue
		}
		add("table-documented:"+n, "table option "+n+" is documented in README.md", "(assert (not "+member(n, rnames)+"))\n")
	}
	// G5: help output lists exactly the table
	for _, n := range tab.Names {
		add("help-lists:"+n, "`-h` (GoBackend.Options) lists option "+n, "(assert (not "+member(n, tab.Help)+"))\n")
	}
	// G6: defaults equal the README Default column
	for _, r := range rows {
		d, isFeature := tab.Defaults[r.name]
		if !isFeature {
			continue
		}
		want := strings.Contains(r.def, "true")
		add("default:"+r.name, fmt.Sprintf("default of %s is %v as documented", r.name, want), fmt.Sprintf("(assert (not (= %v %v)))\n", d, want))
	}
	// G7: the feature part of the table is the Features struct tags in declaration order after the six named entries
	if len(tab.Names) >= len(tab.Tags) {
		off := len(tab.Names) - len(tab.Tags)
		var eqs []string
		for i, tg := range tab.Tags {
			eqs = append(eqs, fmt.Sprintf("(= %s %s)", smtStr(tab.Names[off+i]), smtStr(tg)))
		}
		add("feature-order", "feature options appear in struct declaration order (entry k toggles field k)", "(assert (not (and true "+strings.Join(eqs, " ")+")))\n")
	}
	return obls, nil
}
