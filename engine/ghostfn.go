package main

// Ghost functions: `//@ ghost func f(params) T { return e }` declares a specification function that may be recursive
// and may read the heap. Unlike a `pure func` (a macro) it is an uninterpreted SMT function whose arguments are the
// heap arrays its body reads followed by its parameters, together with one definitional axiom
//
//     forall arrays, params :: f(arrays, params) == e[arrays, params]        (pattern: the application itself)
//
// added to every obligation that mentions f. Because the arrays are explicit arguments the definition is independent
// of the program state: an application in a given state passes that state's versions of the arrays, and two states
// that agree on them get the same term. A recursive definition is an assumption of well-foundedness (on the heaps
// considered the recursion must terminate, e.g. trees); it is listed in the evidence.

import (
	"fmt"
	"sort"
)

var ghostAxioms = map[string]*Term{} // symbol name -> definitional axiom (kept for reference; the SMT text uses define-funs-rec)

type ghostDef struct {
	vars []*Term
	body *Term
	ret  *Sort
}

var ghostDefs = map[string]*ghostDef{}
var ghostPlain = map[string]bool{}

func ghostSym(pf *PureFunc) string { return "gf." + smtName(pf.Name) }

func (env *SpecEnv) prepareGhost(e *SExpr, pf *PureFunc) {
	if pf.ready {
		return
	}
	vc := env.vc
	pkg := vc.prog.Pkgs[pf.Pkg]
	mk := func(st *State) *SpecEnv {
		return &SpecEnv{vc: vc, st: st, vars: map[string]TV{}, pkg: pkg, depth: env.depth + 1, what: "ghost " + pf.Name}
	}
	// pass 1: which heap arrays does the body read? (recursive applications are placeholders)
	st0 := &State{env: nil, heap: map[string]*Term{}, ghost: map[string]*Term{}, epoch: "gh", alloc: Fresh("gh.alloc", SInt)}
	n0 := mk(st0)
	for _, p := range pf.Params {
		ty := n0.resolveType(p.Type)
		n0.vars[p.Name] = TV{Fresh("gh."+p.Name, sortOf(ty)), ty}
	}
	pf.arrays = nil
	pf.ready = true
	pf.discovering = true // recursive applications during discovery are placeholders
	n0.eval(pf.Body)
	pf.discovering = false
	var names []string
	for n := range st0.heap {
		names = append(names, n)
	}
	sort.Strings(names)
	pf.arrays = names
	// pass 2: the definition over bound variables
	st1 := &State{env: nil, heap: map[string]*Term{}, ghost: map[string]*Term{}, epoch: "gh", alloc: BoundVar("gh!alloc", SInt)}
	var vars []*Term
	for _, n := range names {
		bv := BoundVar("gh!"+smtName(n), vc.heapSorts[n])
		st1.heap[n] = bv
		vars = append(vars, bv)
	}
	n1 := mk(st1)
	var args []*Term
	for _, p := range pf.Params {
		ty := n1.resolveType(p.Type)
		bv := BoundVar("gh!"+p.Name, sortOf(ty))
		n1.vars[p.Name] = TV{bv, ty}
		vars = append(vars, bv)
		args = append(args, bv)
	}
	body := n1.eval(pf.Body)
	ret := n1.resolveType(pf.Ret)
	if body.T.Sort != sortOf(ret) {
		env.fail(e, fmt.Sprintf("ghost func %s: body has sort %s, declared %s", pf.Name, body.T.Sort.S, sortOf(ret).S))
	}
	for n := range st1.heap {
		found := false
		for _, m := range names {
			if m == n {
				found = true
			}
		}
		if !found {
			env.fail(e, "ghost func "+pf.Name+": heap array "+n+" discovered late")
		}
	}
	app := App(ghostSym(pf), sortOf(ret), append(append([]*Term{}, vars[:len(names)]...), args...)...)
	ghostAxioms[ghostSym(pf)] = Forall(vars, Eq(app, body.T), []*Term{app})
	if pf.recursive {
		ghostDefs[ghostSym(pf)] = &ghostDef{vars: vars, body: body.T, ret: sortOf(ret)}
	} else {
		// not recursive: an uninterpreted symbol with its definition as an axiom (an atom in the formulas that use it,
		// unfolded by instantiation); recursive ones are emitted as define-funs-rec
		ghostPlain[ghostSym(pf)] = true
	}
	vc.prog.Assumed["ghost function "+pf.Name+" (recursive definitions are assumed well-founded): "+pf.Body.Src] = true
}

func (env *SpecEnv) callGhost(e *SExpr, pf *PureFunc) TV {
	if len(e.Args) != len(pf.Params) {
		env.fail(e, "wrong number of arguments to ghost function "+pf.Name)
	}
	env.prepareGhost(e, pf)
	vc := env.vc
	pkg := vc.prog.Pkgs[pf.Pkg]
	n := &SpecEnv{vc: vc, st: env.st, vars: map[string]TV{}, pkg: pkg, what: "ghost " + pf.Name}
	ret := n.resolveType(pf.Ret)
	if pf.discovering {
		pf.recursive = true
		for _, a := range e.Args {
			env.eval(a)
		}
		return TV{Fresh("gh.rec", sortOf(ret)), ret}
	}
	var all []*Term
	for _, a := range pf.arrays {
		all = append(all, vc.heapArr(env.st, a, vc.heapSorts[a]))
	}
	for i, p := range pf.Params {
		a := env.eval(e.Args[i])
		ty := n.resolveType(p.Type)
		if a.T.Sort != sortOf(ty) {
			env.fail(e, fmt.Sprintf("argument %d of %s: sort %s, want %s", i, pf.Name, a.T.Sort.S, sortOf(ty).S))
		}
		all = append(all, a.T)
	}
	return TV{App(ghostSym(pf), sortOf(ret), all...), ret}
}

// ghostPlainAxioms: definitions (as axioms) of the non-recursive ghost functions used.
func ghostPlainAxioms(used map[*Decl]bool) []*Term {
	var names []string
	for name := range ghostPlain {
		if d, ok := declTab[name]; ok && used[d] {
			names = append(names, name)
		}
	}
	sort.Strings(names)
	var out []*Term
	for _, n := range names {
		out = append(out, ghostAxioms[n])
	}
	return out
}

// ghostBodies: bodies of the ghost functions used (so that the symbols they mention get declared); fixpoint by the caller.
func ghostBodies(used map[*Decl]bool) []*Term {
	var names []string
	for name := range ghostDefs {
		if d, ok := declTab[name]; ok && used[d] {
			names = append(names, name)
		}
	}
	sort.Strings(names)
	var out []*Term
	for _, n := range names {
		out = append(out, ghostDefs[n].body)
	}
	return out
}

// ghostDefsText: (define-funs-rec ...) for the ghost functions used.
func ghostDefsText(used map[*Decl]bool) string {
	var names []string
	for name := range ghostDefs {
		if d, ok := declTab[name]; ok && used[d] {
			names = append(names, name)
		}
	}
	if len(names) == 0 {
		return ""
	}
	sort.Strings(names)
	sigs, bodies := "", ""
	for _, n := range names {
		g := ghostDefs[n]
		sigs += "(" + n + " ("
		for _, v := range g.vars {
			sigs += "(" + v.Lit + " " + v.Sort.S + ")"
		}
		sigs += ") " + g.ret.S + ")"
		bodies += " " + g.body.String()
	}
	return "(define-funs-rec (" + sigs + ") (" + bodies + "))\n"
}
