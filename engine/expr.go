package main

// Evaluation of Go expressions over symbolic states.

import (
	"fmt"
	"go/ast"
	"go/constant"
	"go/token"
	"go/types"
	"strings"
)

func (vc *VC) typeOf(e ast.Expr) types.Type {
	tv, ok := vc.frame().info.Types[e]
	if ok {
		return tv.Type
	}
	if id, ok := e.(*ast.Ident); ok {
		if o := vc.frame().info.ObjectOf(id); o != nil {
			return o.Type()
		}
	}
	vc.unsupported(e, "no type for expression")
	return nil
}

func constTerm(v constant.Value, t types.Type) *Term {
	switch v.Kind() {
	case constant.Bool:
		return BoolLit(constant.BoolVal(v))
	case constant.String:
		return strLit(constant.StringVal(v))
	case constant.Int:
		return BigLit(v.ExactString())
	case constant.Float:
		if b, ok := t.Underlying().(*types.Basic); ok && b.Info()&types.IsInteger != 0 {
			if i := constant.ToInt(v); i.Kind() == constant.Int {
				return BigLit(i.ExactString())
			}
		}
		return Const("flt!"+smtName(v.ExactString()), SFloat)
	}
	panic("constTerm: unsupported constant kind")
}

func (vc *VC) eval(s *State, e ast.Expr) *Term {
	vs := vc.evalMulti(s, e, 1)
	if len(vs) != 1 {
		vc.unsupported(e, fmt.Sprintf("expected single value, got %d", len(vs)))
	}
	return vs[0]
}

// evalMulti evaluates e; want is the number of values expected (1 or 2 for comma-ok forms, n for calls).
func (vc *VC) evalMulti(s *State, e ast.Expr, want int) []*Term {
	info := vc.frame().info
	if tv, ok := info.Types[e]; ok && tv.Value != nil {
		return []*Term{constTerm(tv.Value, tv.Type)}
	}
	switch x := e.(type) {
	case *ast.ParenExpr:
		return vc.evalMulti(s, x.X, want)
	case *ast.Ident:
		return []*Term{vc.evalIdent(s, x)}
	case *ast.BasicLit:
		vc.unsupported(e, "non-constant basic literal")
	case *ast.SelectorExpr:
		return []*Term{vc.evalSelector(s, x)}
	case *ast.StarExpr:
		p := vc.eval(s, x.X)
		pt := vc.typeOf(x.X).Underlying().(*types.Pointer)
		vc.nonNil(s, p, vc.siteName("deref", x), exprStr(x), x.Pos())
		return []*Term{vc.loadPtr(s, pt.Elem(), p)}
	case *ast.UnaryExpr:
		return []*Term{vc.evalUnary(s, x)}
	case *ast.BinaryExpr:
		return []*Term{vc.evalBinary(s, x)}
	case *ast.CallExpr:
		return vc.evalCall(s, x, want)
	case *ast.IndexExpr:
		return vc.evalIndex(s, x, want)
	case *ast.SliceExpr:
		return []*Term{vc.evalSliceExpr(s, x)}
	case *ast.CompositeLit:
		return []*Term{vc.evalCompositeLit(s, x)}
	case *ast.FuncLit:
		// function value: opaque for the code that receives it; its body is verified as a procedure of its own when the
		// contract has callback clauses (stdfs.go)
		if vc.fn != nil && vc.fn.Spec != nil && len(vc.fn.Spec.CallbackEnsures) > 0 && len(vc.frames) == 1 && !vc.quiet {
			vc.runCallback(s, x)
		} else {
			vc.prog.Abstracted["func literal used as value at "+vc.posStr(x.Pos())] = true
		}
		c := Fresh("funclit", SInt)
		s.assume(Gt(c, IntLit(0)))
		return []*Term{c}
	case *ast.TypeAssertExpr:
		return vc.evalTypeAssert(s, x, want)
	}
	vc.unsupported(e, fmt.Sprintf("expression %T", e))
	return nil
}

func exprStr(e ast.Expr) string {
	return types.ExprString(e)
}

func (vc *VC) globalName(o types.Object) string {
	return "G." + o.Pkg().Name() + "." + o.Name()
}

func (vc *VC) evalIdent(s *State, id *ast.Ident) *Term {
	info := vc.frame().info
	obj := info.ObjectOf(id)
	switch o := obj.(type) {
	case *types.Nil:
		return IntLit(0)
	case *types.Const:
		return constTerm(o.Val(), o.Type())
	case *types.Var:
		if o.Parent() == o.Pkg().Scope() { // package-level var
			if vc.prog.AddrTakenGlobals[o] {
				return vc.loadPtr(s, o.Type(), vc.globalAddr(o))
			}
			if !vc.prog.MutableGlobals[o] {
				if _, hasInit := vc.prog.GlobalInit[o]; !hasInit {
					if _, known := vc.prog.GlobalInfo[o]; known {
						return zeroValue(o.Type()) // never assigned anywhere in the module, no initialiser
					}
				}
				if _, known := vc.prog.GlobalInfo[o]; known {
					// never assigned after initialisation: a constant of the run (its value is whatever the initialiser computed)
					c := Const(smtName(vc.globalName(o))+".const", sortOf(o.Type()))
					if isErrorCtor(vc.prog.GlobalInit[o], vc.prog.GlobalInfo[o].TypesInfo) {
						// initialised with errors.New / fmt.Errorf and never assigned: non-nil for the whole run
						s.assume(Not(Eq(c, IntLit(0))))
					}
					return vc.loaded(s, o.Type(), c, o.Name())
				}
			}
			return vc.loaded(s, o.Type(), vc.heapArr(s, vc.globalName(o), sortOf(o.Type())), o.Name())
		}
		v, ok := s.env[o]
		if !ok {
			vc.unsupported(id, "variable not in environment: "+id.Name)
		}
		if vc.boxed[o] {
			return vc.loadPtr(s, o.Type(), v)
		}
		return v
	case *types.Func:
		vc.prog.Abstracted["function value "+o.FullName()] = true
		return App("funcval."+smtName(o.FullName()), SInt)
	}
	if id.Name == "_" {
		vc.unsupported(id, "blank identifier read")
	}
	vc.unsupported(id, fmt.Sprintf("identifier %s (%T)", id.Name, obj))
	return nil
}

// evalSelector handles x.f (field access, possibly through embedded fields and pointers) and pkg.Name.
func (vc *VC) evalSelector(s *State, x *ast.SelectorExpr) *Term {
	info := vc.frame().info
	sel, ok := info.Selections[x]
	if !ok {
		// qualified identifier
		return vc.evalIdent(s, x.Sel)
	}
	switch sel.Kind() {
	case types.FieldVal:
		base := vc.eval(s, x.X)
		t := vc.typeOf(x.X)
		return vc.walkFieldPath(s, base, t, sel.Index(), x)
	case types.MethodVal:
		vc.prog.Abstracted["method value "+exprStr(x)+" at "+vc.posStr(x.Pos())] = true
		vc.eval(s, x.X)
		c := Fresh("methodval", SInt)
		s.assume(Gt(c, IntLit(0)))
		return c
	}
	vc.unsupported(x, "selector kind")
	return nil
}

func (vc *VC) walkFieldPath(s *State, base *Term, t types.Type, path []int, n ast.Node) *Term {
	cur, ct := base, t
	for _, idx := range path {
		if p, ok := ct.Underlying().(*types.Pointer); ok {
			st, _ := isStructType(p.Elem())
			f := st.Field(idx)
			vc.nonNil(s, cur, vc.siteName("field", n), exprStr(n.(ast.Expr)), n.Pos())
			cur = vc.loadField(s, p.Elem(), f, cur)
			ct = f.Type()
		} else {
			st, ok := isStructType(ct)
			if !ok {
				vc.unsupported(n, "field of non-struct")
			}
			f := st.Field(idx)
			cur = Sel(cur, fieldSelName(f))
			ct = f.Type()
		}
	}
	return cur
}

func (vc *VC) evalUnary(s *State, x *ast.UnaryExpr) *Term {
	switch x.Op {
	case token.NOT:
		return Not(vc.eval(s, x.X))
	case token.SUB:
		v := vc.eval(s, x.X)
		if v.Sort == SFloat {
			return App("flt.neg", SFloat, v)
		}
		return vc.wrapInt(s, vc.typeOf(x), Neg(v))
	case token.ADD:
		return vc.eval(s, x.X)
	case token.XOR:
		v := vc.eval(s, x.X)
		t := vc.typeOf(x)
		if _, signed, ok := intBits(t); ok && signed {
			return Sub(Neg(v), IntLit(1))
		}
		return vc.loaded(s, t, App("bit.not", SInt, v), "bnot")
	case token.AND:
		return vc.evalAddrOf(s, x)
	case token.ARROW:
		return vc.evalRecv(s, x)
	}
	vc.unsupported(x, "unary "+x.Op.String())
	return nil
}

func (vc *VC) evalAddrOf(s *State, x *ast.UnaryExpr) *Term {
	switch y := ast.Unparen(x.X).(type) {
	case *ast.CompositeLit:
		v := vc.evalCompositeLit(s, y)
		return vc.newObject(s, vc.typeOf(y), v)
	case *ast.Ident:
		obj := vc.frame().info.ObjectOf(y)
		if v, ok := obj.(*types.Var); ok {
			if v.Parent() == v.Pkg().Scope() {
				return vc.globalAddr(v)
			}
			if !vc.boxed[obj] {
				vc.unsupported(x, "address of unboxed variable "+y.Name)
			}
			return s.env[obj]
		}
	case *ast.SelectorExpr:
		// &p.f : interior pointer, modelled as an opaque non-nil reference (writes through it are not reflected
		// in the field; listed as an abstraction)
		vc.eval(s, y.X)
		vc.prog.Abstracted["interior pointer &"+exprStr(y)+" is opaque (writes through it are not reflected in the field) in "+shortKey(vc.fn.Key)] = true
		return vc.allocRef(s, "interior", typeID(vc.typeOf(y)))
	case *ast.IndexExpr:
		vc.unsupported(x, "address of element "+exprStr(y))
	}
	vc.unsupported(x, "address-of")
	return nil
}

// wrapInt models narrowing of mathematical integer results: by default arithmetic is mathematical (assumption).
func (vc *VC) wrapInt(s *State, t types.Type, v *Term) *Term { return v }

// convInt models an explicit integer conversion exactly.
func (vc *VC) convInt(s *State, from, to types.Type, v *Term) *Term {
	fb, fsigned, ok1 := intBits(from)
	tb, tsigned, ok2 := intBits(to)
	if !ok1 || !ok2 {
		return v
	}
	// widening with same signedness or unsigned->larger signed: identity
	if (fsigned == tsigned && tb >= fb) || (!fsigned && tsigned && tb > fb) {
		return v
	}
	if c, ok := intConst(v); ok {
		lo, hi, _ := intRange(to)
		_ = lo
		_ = hi
		if tb >= 63 && c >= 0 {
			return v
		}
		if tb < 63 {
			m := int64(1) << uint(tb)
			r := ((c % m) + m) % m
			if tsigned && r >= m/2 {
				r -= m
			}
			return IntLit(r)
		}
	}
	m := BigLit(pow2(tb))
	if !tsigned {
		return s.name("conv", op("mod", SInt, v, m))
	}
	half := BigLit(pow2(tb - 1))
	return s.name("conv", Sub(op("mod", SInt, Add(v, half), m), half))
}

func goDiv(a, b *Term) *Term {
	// truncated division
	return Ite(Ge(a, IntLit(0)),
		Ite(Gt(b, IntLit(0)), op("div", SInt, a, b), Neg(op("div", SInt, a, Neg(b)))),
		Ite(Gt(b, IntLit(0)), Neg(op("div", SInt, Neg(a), b)), op("div", SInt, Neg(a), Neg(b))))
}

func (vc *VC) evalBinary(s *State, x *ast.BinaryExpr) *Term {
	switch x.Op {
	case token.LAND, token.LOR:
		l := vc.eval(s, x.X)
		s1 := s.clone()
		if x.Op == token.LAND {
			s1.assume(l)
		} else {
			s1.assume(Not(l))
		}
		before := s1.pc
		heapBefore := len(s1.heap)
		allocBefore := s1.alloc
		r := vc.eval(s1, x.Y)
		// fast path: rhs had no effect on the state
		if s1.pc == before && s1.alloc == allocBefore && len(s1.heap) == heapBefore {
			same := true
			for k, v := range s1.heap {
				if s.heap[k] != v {
					same = false
					break
				}
			}
			if same {
				if x.Op == token.LAND {
					return And(l, r)
				}
				return Or(l, r)
			}
		}
		s2 := s.clone()
		tmp := fmt.Sprintf("$sc%d", len(vc.obls)*1000+int(x.Pos())%1000)
		if x.Op == token.LAND {
			s2.assume(Not(l))
			s2.ghost[tmp] = False
		} else {
			s2.assume(l)
			s2.ghost[tmp] = True
		}
		s1.ghost[tmp] = r
		m := vc.mergeStates([]*State{s1, s2})
		res := m.ghost[tmp]
		delete(m.ghost, tmp)
		*s = *m
		return res
	}
	lt := vc.typeOf(x.X)
	rt := vc.typeOf(x.Y)
	l := vc.eval(s, x.X)
	r := vc.eval(s, x.Y)
	return vc.binop(s, x, x.Op, l, r, lt, rt, vc.typeOf(x))
}

func isNilType(t types.Type) bool {
	b, ok := t.(*types.Basic)
	return ok && b.Kind() == types.UntypedNil
}

func (vc *VC) binop(s *State, n ast.Node, o token.Token, l, r *Term, lt, rt, resT types.Type) *Term {
	switch o {
	case token.EQL, token.NEQ:
		var eq *Term
		_, lSlice := lt.Underlying().(*types.Slice)
		_, rSlice := rt.Underlying().(*types.Slice)
		switch {
		case lSlice && isNilType(rt):
			eq = Sel(l, "isnil")
		case rSlice && isNilType(lt):
			eq = Sel(r, "isnil")
		default:
			if l.Sort != r.Sort {
				vc.unsupported(n, "comparison of different sorts "+l.Sort.S+" "+r.Sort.S)
			}
			eq = Eq(l, r)
		}
		if o == token.NEQ {
			return Not(eq)
		}
		return eq
	}
	if l.Sort == SStr {
		switch o {
		case token.ADD:
			c := strConcat(l, r)
			return c
		case token.LSS:
			return App("sx.lt", SBool, l, r)
		case token.GTR:
			return App("sx.lt", SBool, r, l)
		case token.LEQ:
			return Or(App("sx.lt", SBool, l, r), Eq(l, r))
		case token.GEQ:
			return Or(App("sx.lt", SBool, r, l), Eq(l, r))
		}
		vc.unsupported(n, "string op "+o.String())
	}
	if l.Sort == SFloat {
		switch o {
		case token.LSS:
			return App("flt.lt", SBool, l, r)
		case token.GTR:
			return App("flt.lt", SBool, r, l)
		case token.LEQ:
			return Or(App("flt.lt", SBool, l, r), Eq(l, r))
		case token.GEQ:
			return Or(App("flt.lt", SBool, r, l), Eq(l, r))
		}
		vc.prog.Abstracted["floating point arithmetic ("+o.String()+")"] = true
		return App("flt.op."+smtName(o.String()), SFloat, l, r)
	}
	switch o {
	case token.LSS:
		return Lt(l, r)
	case token.LEQ:
		return Le(l, r)
	case token.GTR:
		return Gt(l, r)
	case token.GEQ:
		return Ge(l, r)
	case token.ADD:
		return Add(l, r)
	case token.SUB:
		return Sub(l, r)
	case token.MUL:
		return Mul(l, r)
	case token.QUO, token.REM:
		vc.oblige(s, "safety", vc.siteName("div", n), "division by zero", n.Pos(), Not(Eq(r, IntLit(0))))
		q := goDiv(l, r)
		if o == token.QUO {
			return s.name("quo", q)
		}
		return s.name("rem", Sub(l, Mul(r, q)))
	case token.AND, token.OR, token.XOR, token.SHL, token.SHR, token.AND_NOT:
		return vc.bitop(s, o, l, r, resT)
	}
	vc.unsupported(n, "binary op "+o.String())
	return nil
}

func (vc *VC) bitop(s *State, o token.Token, l, r *Term, resT types.Type) *Term {
	// a few exact cases, otherwise uninterpreted (deterministic) functions with the result type's range
	if c, ok := intConst(r); ok {
		switch o {
		case token.SHL:
			if c >= 0 && c < 62 {
				// exact when no overflow; machine overflow is out of the int model (listed assumption)
				bits, _, okb := intBits(resT)
				v := Mul(l, IntLit(1<<uint(c)))
				if okb && bits < 64 {
					return vc.convInt(s, types.Typ[types.Int64], resT, v)
				}
				return v
			}
		case token.SHR:
			if c >= 0 && c < 62 {
				return s.name("shr", op("div", SInt, l, IntLit(1<<uint(c)))) // floor division = arithmetic shift
			}
		case token.AND:
			// x & (2^k - 1) for non-negative x
			if c >= 0 && (c+1)&c == 0 {
				return s.name("and", Ite(Ge(l, IntLit(0)), op("mod", SInt, l, IntLit(c+1)), App("bit.and", SInt, l, r)))
			}
		}
	}
	vc.prog.Abstracted["bit operation "+o.String()+" (uninterpreted in int mode)"] = true
	name := map[token.Token]string{token.AND: "bit.and", token.OR: "bit.or", token.XOR: "bit.xor", token.SHL: "bit.shl", token.SHR: "bit.shr", token.AND_NOT: "bit.andnot"}[o]
	v := App(name, SInt, l, r)
	if inv := typeInv(resT, v, nil); inv != True {
		s.assume(inv)
	}
	return v
}

func (vc *VC) evalIndex(s *State, x *ast.IndexExpr, want int) []*Term {
	bt := vc.typeOf(x.X)
	// generic instantiation f[T] not supported
	switch u := bt.Underlying().(type) {
	case *types.Map:
		if v, ok, done := vc.constMapLookup(s, x, u); done {
			if want == 2 {
				return []*Term{v, ok}
			}
			return []*Term{v}
		}
		m := vc.eval(s, x.X)
		k := vc.eval(s, x.Index)
		v, ok := vc.mapGet(s, u, m, k)
		if want == 2 {
			return []*Term{v, ok}
		}
		return []*Term{v}
	case *types.Slice:
		b := vc.eval(s, x.X)
		i := vc.eval(s, x.Index)
		vc.oblige(s, "safety", vc.siteName("index", x), "index out of range: "+exprStr(x), x.Pos(), And(Le(IntLit(0), i), Lt(i, sliceLen(b))))
		return []*Term{vc.loaded(s, u.Elem(), Select(sliceElems(b), i), "el")}
	case *types.Array:
		b := vc.eval(s, x.X)
		i := vc.eval(s, x.Index)
		vc.oblige(s, "safety", vc.siteName("index", x), "index out of range: "+exprStr(x), x.Pos(), And(Le(IntLit(0), i), Lt(i, IntLit(u.Len()))))
		return []*Term{vc.loaded(s, u.Elem(), Select(b, i), "el")}
	case *types.Pointer:
		if at, ok := u.Elem().Underlying().(*types.Array); ok {
			p := vc.eval(s, x.X)
			vc.nonNil(s, p, vc.siteName("index", x), exprStr(x), x.Pos())
			b := vc.loadPtr(s, u.Elem(), p)
			i := vc.eval(s, x.Index)
			vc.oblige(s, "safety", vc.siteName("index", x), "index out of range: "+exprStr(x), x.Pos(), And(Le(IntLit(0), i), Lt(i, IntLit(at.Len()))))
			return []*Term{vc.loaded(s, at.Elem(), Select(b, i), "el")}
		}
	case *types.Basic:
		if u.Info()&types.IsString != 0 {
			b := vc.eval(s, x.X)
			i := vc.eval(s, x.Index)
			vc.oblige(s, "safety", vc.siteName("index", x), "index out of range: "+exprStr(x), x.Pos(), And(Le(IntLit(0), i), Lt(i, strLen(b))))
			c := s.name("ch", strAt(b, i))
			s.assume(And(Le(IntLit(0), c), Le(c, IntLit(255))))
			return []*Term{c}
		}
	}
	vc.unsupported(x, "index of "+bt.String())
	return nil
}

func (vc *VC) evalSliceExpr(s *State, x *ast.SliceExpr) *Term {
	bt := vc.typeOf(x.X)
	b := vc.eval(s, x.X)
	var lo, hi, mx *Term
	if x.Low != nil {
		lo = vc.eval(s, x.Low)
	} else {
		lo = IntLit(0)
	}
	site := vc.siteName("slice", x)
	switch u := bt.Underlying().(type) {
	case *types.Basic:
		if u.Info()&types.IsString == 0 {
			break
		}
		if x.High != nil {
			hi = vc.eval(s, x.High)
		} else {
			hi = strLen(b)
		}
		vc.oblige(s, "safety", site, "slice bounds out of range: "+exprStr(x), x.Pos(), And(Le(IntLit(0), lo), Le(lo, hi), Le(hi, strLen(b))))
		r := s.name("sub", strSub(b, lo, hi))
		s.assume(Eq(strLen(r), Sub(hi, lo)))
		return r
	case *types.Slice:
		if x.High != nil {
			hi = vc.eval(s, x.High)
		} else {
			hi = sliceLen(b)
		}
		cp := Sel(b, "cap")
		if x.Max != nil {
			mx = vc.eval(s, x.Max)
			vc.oblige(s, "safety", site, "slice bounds out of range: "+exprStr(x), x.Pos(), And(Le(IntLit(0), lo), Le(lo, hi), Le(hi, mx), Le(mx, cp)))
		} else {
			mx = cp
			vc.oblige(s, "safety", site, "slice bounds out of range: "+exprStr(x), x.Pos(), And(Le(IntLit(0), lo), Le(lo, hi), Le(hi, cp)))
		}
		srt := sortOf(bt)
		// value semantics: elements beyond the old length that become visible are unconstrained but fixed (they are whatever elems holds)
		return mkSlice(srt, arrShift(sliceElems(b), lo), Sub(hi, lo), Sub(mx, lo), And(Sel(b, "isnil"), Eq(hi, lo)))
	case *types.Array:
		if x.High != nil {
			hi = vc.eval(s, x.High)
		} else {
			hi = IntLit(u.Len())
		}
		vc.oblige(s, "safety", site, "slice bounds out of range: "+exprStr(x), x.Pos(), And(Le(IntLit(0), lo), Le(lo, hi), Le(hi, IntLit(u.Len()))))
		srt := sortOf(types.NewSlice(u.Elem()))
		vc.prog.Abstracted["slicing an array by value (aliasing with the array not modelled) at "+vc.posStr(x.Pos())] = true
		return mkSlice(srt, arrShift(b, lo), Sub(hi, lo), Sub(IntLit(u.Len()), lo), False)
	}
	vc.unsupported(x, "slice expression on "+bt.String())
	return nil
}

func (vc *VC) evalCompositeLit(s *State, x *ast.CompositeLit) *Term {
	t := vc.typeOf(x)
	switch u := t.Underlying().(type) {
	case *types.Struct:
		args := make([]*Term, u.NumFields())
		for i := range args {
			args[i] = zeroValue(u.Field(i).Type())
		}
		for i, el := range x.Elts {
			if kv, ok := el.(*ast.KeyValueExpr); ok {
				name := kv.Key.(*ast.Ident).Name
				for j := 0; j < u.NumFields(); j++ {
					if u.Field(j).Name() == name {
						args[j] = vc.evalTo(s, kv.Value, u.Field(j).Type())
					}
				}
			} else {
				args[i] = vc.evalTo(s, el, u.Field(i).Type())
			}
		}
		return Ctor(sortOf(t), args...)
	case *types.Slice:
		srt := sortOf(t)
		elems := Sel(nilSlice(srt), "elems")
		n := int64(0)
		for _, el := range x.Elts {
			if _, ok := el.(*ast.KeyValueExpr); ok {
				vc.unsupported(x, "keyed slice literal")
			}
			v := vc.evalTo(s, el, u.Elem())
			elems = Store(elems, IntLit(n), v)
			n++
		}
		return mkSlice(srt, s.name("lit", elems), IntLit(n), IntLit(n), False)
	case *types.Array:
		arr := zeroValue(t)
		for i, el := range x.Elts {
			if _, ok := el.(*ast.KeyValueExpr); ok {
				vc.unsupported(x, "keyed array literal")
			}
			arr = Store(arr, IntLit(int64(i)), vc.evalTo(s, el, u.Elem()))
		}
		return s.name("arrlit", arr)
	case *types.Map:
		m := vc.mapMake(s, u)
		for _, el := range x.Elts {
			kv := el.(*ast.KeyValueExpr)
			k := vc.evalTo(s, kv.Key, u.Key())
			v := vc.evalTo(s, kv.Value, u.Elem())
			vc.mapSet(s, u, m, k, v)
		}
		return m
	}
	vc.unsupported(x, "composite literal of "+t.String())
	return nil
}

// evalTo evaluates e and converts it for assignment to a location of type target (handles composite literal elision and interface boxing).
func (vc *VC) evalTo(s *State, e ast.Expr, target types.Type) *Term {
	if cl, ok := e.(*ast.CompositeLit); ok && cl.Type == nil {
		// elided type in nested composite literal
		if p, ok := target.Underlying().(*types.Pointer); ok {
			vc.frame().info.Types[cl] = types.TypeAndValue{Type: p.Elem()}
			v := vc.evalCompositeLit(s, cl)
			return vc.newObject(s, p.Elem(), v)
		}
		vc.frame().info.Types[cl] = types.TypeAndValue{Type: target}
		return vc.evalCompositeLit(s, cl)
	}
	if target != nil {
		if tv, ok := vc.frame().info.Types[e]; ok && tv.IsNil() {
			return zeroValue(target)
		}
	}
	v := vc.eval(s, e)
	return vc.convertForAssign(s, v, vc.typeOf(e), target, e)
}

// convertForAssign handles implicit conversion on assignment (concrete -> interface).
func (vc *VC) convertForAssign(s *State, v *Term, from, to types.Type, n ast.Node) *Term {
	if to == nil || from == nil {
		return v
	}
	if _, ok := to.Underlying().(*types.Interface); ok {
		if _, isI := from.Underlying().(*types.Interface); !isI && !isNilType(from) {
			return vc.boxIface(s, v, from)
		}
	}
	return v
}

// boxIface converts a concrete value to an interface value (opaque non-nil Int, deterministic in the value).
func (vc *VC) boxIface(s *State, v *Term, from types.Type) *Term {
	name := "iface." + typeKey(from)
	r := App(name, SInt, v)
	// a non-nil concrete type in an interface is a non-nil interface, even if the pointer is nil
	s.assume(Gt(r, IntLit(0)))
	return r
}

func (vc *VC) evalTypeAssert(s *State, x *ast.TypeAssertExpr, want int) []*Term {
	v := vc.eval(s, x.X)
	if x.Type == nil {
		vc.unsupported(x, "type switch guard outside switch")
	}
	t := vc.typeOf(x.Type)
	okT := App("iface.is."+typeKey(t), SBool, v)
	res := vc.loaded(s, t, App("iface.as."+typeKey(t), sortOf(t), v), "ta")
	vc.prog.Abstracted["type assertion (dynamic types uninterpreted)"] = true
	if want == 2 {
		return []*Term{Ite(okT, res, zeroValue(t)), okT}
	}
	vc.oblige(s, "safety", vc.siteName("assert", x), "type assertion may fail: "+exprStr(x), x.Pos(), okT)
	return []*Term{res}
}

// ---------- assignment ----------

func (vc *VC) assign(s *State, lhs ast.Expr, v *Term) {
	switch x := ast.Unparen(lhs).(type) {
	case *ast.Ident:
		if x.Name == "_" {
			return
		}
		obj := vc.frame().info.ObjectOf(x)
		o, ok := obj.(*types.Var)
		if !ok {
			vc.unsupported(lhs, "assignment to non-variable")
		}
		vc.setVar(s, o, v)
	case *ast.SelectorExpr:
		sel, ok := vc.frame().info.Selections[x]
		if !ok {
			// package-level variable pkg.V
			o := vc.frame().info.ObjectOf(x.Sel).(*types.Var)
			vc.setVar(s, o, v)
			return
		}
		vc.assignFieldPath(s, x, sel.Index(), v)
	case *ast.IndexExpr:
		bt := vc.typeOf(x.X)
		switch u := bt.Underlying().(type) {
		case *types.Map:
			m := vc.eval(s, x.X)
			k := vc.eval(s, x.Index)
			vc.oblige(s, "safety", vc.siteName("index", x), "assignment to entry in nil map: "+exprStr(x), x.Pos(), Not(Eq(m, IntLit(0))))
			vc.mapSet(s, u, m, k, v)
		case *types.Slice:
			b := vc.eval(s, x.X)
			i := vc.eval(s, x.Index)
			vc.oblige(s, "safety", vc.siteName("index", x), "index out of range: "+exprStr(x), x.Pos(), And(Le(IntLit(0), i), Lt(i, sliceLen(b))))
			vc.prog.Abstracted["slice element write under value semantics (no aliasing between slice headers) in "+shortKey(vc.fn.Key)] = true
			nb := Upd(b, "elems", Store(sliceElems(b), i, v))
			vc.assign(s, x.X, s.name("sl", nb))
		case *types.Array:
			b := vc.eval(s, x.X)
			i := vc.eval(s, x.Index)
			vc.oblige(s, "safety", vc.siteName("index", x), "index out of range: "+exprStr(x), x.Pos(), And(Le(IntLit(0), i), Lt(i, IntLit(u.Len()))))
			vc.assign(s, x.X, s.name("arr", Store(b, i, v)))
		default:
			vc.unsupported(lhs, "index assignment on "+bt.String())
		}
	case *ast.StarExpr:
		p := vc.eval(s, x.X)
		pt := vc.typeOf(x.X).Underlying().(*types.Pointer)
		vc.nonNil(s, p, vc.siteName("deref", x), exprStr(x), x.Pos())
		vc.storePtr(s, pt.Elem(), p, v)
	default:
		vc.unsupported(lhs, fmt.Sprintf("assignment target %T", lhs))
	}
}

func (vc *VC) setVar(s *State, o *types.Var, v *Term) {
	if o.Pkg() != nil && o.Parent() == o.Pkg().Scope() {
		if vc.prog.AddrTakenGlobals[o] {
			vc.storePtr(s, o.Type(), vc.globalAddr(o), v)
			return
		}
		vc.writeAllowed(s, vc.globalName(o), nil)
		s.heap[vc.globalName(o)] = v
		vc.heapSorts[vc.globalName(o)] = sortOf(o.Type())
		return
	}
	if vc.boxed[o] {
		ref, ok := s.env[o]
		if !ok {
			ref = vc.allocRef(s, o.Name(), typeID(o.Type()))
			s.env[o] = ref
		}
		vc.storePtr(s, o.Type(), ref, v)
		return
	}
	s.env[o] = s.name(o.Name(), v)
}

// assignFieldPath assigns v to x (= base.path) writing back through struct values as needed.
func (vc *VC) assignFieldPath(s *State, x *ast.SelectorExpr, path []int, v *Term) {
	baseT := vc.typeOf(x.X)
	// find the last pointer along the path; everything after it is struct-value nesting
	var steps []fstep
	ct := baseT
	for _, idx := range path {
		var st *types.Struct
		if p, ok := ct.Underlying().(*types.Pointer); ok {
			st, _ = isStructType(p.Elem())
		} else {
			st, _ = isStructType(ct)
		}
		f := st.Field(idx)
		steps = append(steps, fstep{ct, f})
		ct = f.Type()
	}
	lastPtr := -1
	for i, st := range steps {
		if _, ok := st.t.Underlying().(*types.Pointer); ok {
			lastPtr = i
		}
	}
	if lastPtr == -1 {
		// pure struct-value path from base expression: rebuild and assign back to base
		base := vc.eval(s, x.X)
		vc.assign(s, x.X, vc.updPath(base, steps2fields(steps), v))
		return
	}
	// evaluate up to the pointer at lastPtr
	cur := vc.eval(s, x.X)
	ctype := baseT
	for i := 0; i < lastPtr; i++ {
		if p, ok := ctype.Underlying().(*types.Pointer); ok {
			vc.nonNil(s, cur, vc.siteName("field", x), exprStr(x), x.Pos())
			cur = vc.loadField(s, p.Elem(), steps[i].f, cur)
		} else {
			cur = Sel(cur, fieldSelName(steps[i].f))
		}
		ctype = steps[i].f.Type()
	}
	p := ctype.Underlying().(*types.Pointer)
	vc.nonNil(s, cur, vc.siteName("field", x), exprStr(x), x.Pos())
	f := steps[lastPtr].f
	if lastPtr == len(steps)-1 {
		vc.storeField(s, p.Elem(), f, cur, v)
		return
	}
	old := vc.loadField(s, p.Elem(), f, cur)
	var rest []*types.Var
	for _, st := range steps[lastPtr+1:] {
		rest = append(rest, st.f)
	}
	vc.storeField(s, p.Elem(), f, cur, vc.updPath(old, rest, v))
}

type fstep struct {
	t types.Type // type of the container at this step (pointer or struct)
	f *types.Var
}

func steps2fields(steps []fstep) []*types.Var {
	out := make([]*types.Var, len(steps))
	for i, s := range steps {
		out[i] = s.f
	}
	return out
}

func (vc *VC) updPath(base *Term, fields []*types.Var, v *Term) *Term {
	if len(fields) == 0 {
		return v
	}
	f := fieldSelName(fields[0])
	return Upd(base, f, vc.updPath(Sel(base, f), fields[1:], v))
}

func isBlank(e ast.Expr) bool {
	id, ok := e.(*ast.Ident)
	return ok && id.Name == "_"
}

func lastSeg(s string) string {
	if i := strings.LastIndex(s, "."); i >= 0 {
		return s[i+1:]
	}
	return s
}

// globalAddr: the address of a package-level variable whose address is taken somewhere: a fixed allocated reference.
func (vc *VC) globalAddr(o *types.Var) *Term {
	name := "gaddr." + smtName(o.Pkg().Name()+"."+o.Name())
	c := Const(name, SInt)
	if !vc.gaddrSeen[name] {
		vc.gaddrSeen[name] = true
		if a := vc.epochAlloc["0"]; a != nil {
			vc.bgFacts = append(vc.bgFacts, And(Gt(c, IntLit(0)), Lt(c, a)))
		}
		for other := range vc.gaddrSeen {
			if other != name {
				vc.bgFacts = append(vc.bgFacts, Not(Eq(c, Const(other, SInt))))
			}
		}
	}
	return c
}

// constMapLookup: m[k] where m is a package-level map that is never assigned after its initialiser, a composite
// literal with constant keys and values, and is never written through: the lookup is an if-then-else chain.
func (vc *VC) constMapLookup(s *State, x *ast.IndexExpr, mt *types.Map) (v, ok *Term, done bool) {
	var o *types.Var
	switch y := ast.Unparen(x.X).(type) {
	case *ast.Ident:
		o, _ = vc.frame().info.ObjectOf(y).(*types.Var)
	case *ast.SelectorExpr:
		if _, isSel := vc.frame().info.Selections[y]; !isSel {
			o, _ = vc.frame().info.ObjectOf(y.Sel).(*types.Var)
		}
	}
	if o == nil || o.Pkg() == nil || o.Parent() != o.Pkg().Scope() || vc.prog.MutableGlobals[o] || vc.prog.WrittenMaps[o] {
		return nil, nil, false
	}
	init, has := vc.prog.GlobalInit[o]
	if !has {
		return nil, nil, false
	}
	cl, isLit := ast.Unparen(init).(*ast.CompositeLit)
	if !isLit {
		return nil, nil, false
	}
	info := vc.prog.GlobalInfo[o].TypesInfo
	type kv struct{ k, v *Term }
	var kvs []kv
	for _, el := range cl.Elts {
		e, isKV := el.(*ast.KeyValueExpr)
		if !isKV {
			return nil, nil, false
		}
		ktv, ok1 := info.Types[e.Key]
		vtv, ok2 := info.Types[e.Value]
		if !ok1 || !ok2 || ktv.Value == nil || vtv.Value == nil {
			return nil, nil, false
		}
		kvs = append(kvs, kv{constTerm(ktv.Value, ktv.Type), constTerm(vtv.Value, vtv.Type)})
	}
	k := vc.eval(s, x.Index)
	v = zeroValue(mt.Elem())
	ok = False
	for i := len(kvs) - 1; i >= 0; i-- {
		c := Eq(k, kvs[i].k)
		v = Ite(c, kvs[i].v, v)
		ok = Or(c, ok)
	}
	vc.prog.Assumed["package-level map "+o.Pkg().Name()+"."+o.Name()+" is a constant table (never assigned or written in the module; checked syntactically)"] = true
	return s.name("tbl", v), ok, true
}

// isErrorCtor: e is a call of errors.New or fmt.Errorf.
func isErrorCtor(e ast.Expr, info *types.Info) bool {
	call, ok := ast.Unparen(e).(*ast.CallExpr)
	if !ok || info == nil {
		return false
	}
	sel, ok := call.Fun.(*ast.SelectorExpr)
	if !ok {
		return false
	}
	fn, ok := info.ObjectOf(sel.Sel).(*types.Func)
	if !ok || fn.Pkg() == nil {
		return false
	}
	k := fn.Pkg().Path() + "." + fn.Name()
	return k == "errors.New" || k == "fmt.Errorf"
}
