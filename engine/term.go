package main

// Term IR and SMT-LIB printing.

import (
	"fmt"
	"sort"
	"strconv"
	"strings"
)

// Sort is an SMT sort, interned by its SMT-LIB text.
type Sort struct {
	S        string
	Key, Val *Sort     // for arrays
	DT       *Datatype // for datatypes
}

type DTField struct {
	Sel  string
	Sort *Sort
}

type Datatype struct {
	Name   string
	Ctor   string
	Fields []DTField
	order  int
}

var sortTab = map[string]*Sort{}
var dtOrder int

func mkSort(s string) *Sort {
	if x, ok := sortTab[s]; ok {
		return x
	}
	x := &Sort{S: s}
	sortTab[s] = x
	return x
}

var (
	SInt   = mkSort("Int")
	SBool  = mkSort("Bool")
	SStr   = mkSort("Str")
	SFloat = mkSort("Flt")
)

func ArraySort(k, v *Sort) *Sort {
	s := mkSort("(Array " + k.S + " " + v.S + ")")
	s.Key, s.Val = k, v
	return s
}

// DataSort returns (creating if needed) a datatype sort; fields are filled by caller when new.
func DataSort(name string) (*Sort, bool) {
	if x, ok := sortTab[name]; ok {
		return x, false
	}
	s := mkSort(name)
	dtOrder++
	s.DT = &Datatype{Name: name, Ctor: "mk_" + name, order: dtOrder}
	return s, true
}

// Decl is a declared (uninterpreted) symbol.
type Decl struct {
	Name  string
	Args  []*Sort
	Ret   *Sort
	order int
}

var declTab = map[string]*Decl{}
var declOrder int

func declare(name string, args []*Sort, ret *Sort) *Decl {
	if d, ok := declTab[name]; ok {
		if d.Ret != ret || len(d.Args) != len(args) {
			panic("redeclaration with different signature: " + name + " " + d.Ret.S + " vs " + ret.S)
		}
		return d
	}
	declOrder++
	d := &Decl{Name: name, Args: args, Ret: ret, order: declOrder}
	declTab[name] = d
	return d
}

type Term struct {
	Op   string // builtin op, or "" when D != nil, or "lit"
	D    *Decl
	Args []*Term
	Sort *Sort
	Lit  string  // for literals / bound vars
	Vars []*Term // quantifier bound variables (Op "forall"/"exists")
	Pats [][]*Term
	str  string // cached rendering
}

// pegDefs: define-fun text of the PEG automata (set when the shape theory is built)
var pegDefs string

var freshCtr = map[string]int{}

func smtName(s string) string {
	var b strings.Builder
	for _, r := range s {
		switch {
		case r >= 'a' && r <= 'z', r >= 'A' && r <= 'Z', r >= '0' && r <= '9', r == '_', r == '.', r == '!', r == '@', r == '$', r == '#':
			b.WriteRune(r)
		case r == '*':
			b.WriteString("ptr.")
		case r == '[':
			b.WriteString("_L")
		case r == ']':
			b.WriteString("R_")
		case r == '/':
			b.WriteString(".")
		default:
			b.WriteString("_")
		}
	}
	return b.String()
}

func Fresh(base string, s *Sort) *Term {
	base = smtName(base)
	freshCtr[base]++
	name := base + "@" + strconv.Itoa(freshCtr[base])
	return Const(name, s)
}

func Const(name string, s *Sort) *Term {
	d := declare(name, nil, s)
	return &Term{D: d, Sort: s}
}

func App(name string, ret *Sort, args ...*Term) *Term {
	as := make([]*Sort, len(args))
	for i, a := range args {
		as[i] = a.Sort
	}
	d := declare(name, as, ret)
	return &Term{D: d, Sort: ret, Args: args}
}

func BoundVar(name string, s *Sort) *Term { return &Term{Op: "var", Lit: name, Sort: s} }

func IntLit(n int64) *Term {
	return &Term{Op: "lit", Lit: intLitStr(strconv.FormatInt(n, 10)), Sort: SInt}
}

func intLitStr(s string) string {
	if strings.HasPrefix(s, "-") {
		return "(- " + s[1:] + ")"
	}
	return s
}

func BigLit(s string) *Term { return &Term{Op: "lit", Lit: intLitStr(s), Sort: SInt} }

var (
	True  = &Term{Op: "lit", Lit: "true", Sort: SBool}
	False = &Term{Op: "lit", Lit: "false", Sort: SBool}
)

func BoolLit(b bool) *Term {
	if b {
		return True
	}
	return False
}

func op(o string, s *Sort, args ...*Term) *Term { return &Term{Op: o, Sort: s, Args: args} }

func And(ts ...*Term) *Term {
	var out []*Term
	for _, t := range ts {
		if t == True {
			continue
		}
		if t == False {
			return False
		}
		if t.Op == "and" {
			out = append(out, t.Args...)
		} else {
			out = append(out, t)
		}
	}
	if len(out) == 0 {
		return True
	}
	if len(out) == 1 {
		return out[0]
	}
	return op("and", SBool, out...)
}

func Or(ts ...*Term) *Term {
	var out []*Term
	for _, t := range ts {
		if t == False {
			continue
		}
		if t == True {
			return True
		}
		if t.Op == "or" {
			out = append(out, t.Args...)
		} else {
			out = append(out, t)
		}
	}
	if len(out) == 0 {
		return False
	}
	if len(out) == 1 {
		return out[0]
	}
	return op("or", SBool, out...)
}

func Not(t *Term) *Term {
	if t == True {
		return False
	}
	if t == False {
		return True
	}
	if t.Op == "not" {
		return t.Args[0]
	}
	return op("not", SBool, t)
}

func Implies(a, b *Term) *Term {
	if a == True {
		return b
	}
	if a == False || b == True {
		return True
	}
	return op("=>", SBool, a, b)
}

func Eq(a, b *Term) *Term {
	if a == b {
		return True
	}
	if a.Sort != b.Sort {
		panic(fmt.Sprintf("Eq: sort mismatch %s vs %s (%s = %s)", a.Sort.S, b.Sort.S, a, b))
	}
	if a.Op == "lit" && b.Op == "lit" {
		return BoolLit(a.Lit == b.Lit)
	}
	return op("=", SBool, a, b)
}

func Ite(c, a, b *Term) *Term {
	if c == True {
		return a
	}
	if c == False {
		return b
	}
	if a == b {
		return a
	}
	if a.Sort != b.Sort {
		panic(fmt.Sprintf("Ite: sort mismatch %s vs %s", a.Sort.S, b.Sort.S))
	}
	if a.Sort == SBool {
		if a == True && b == False {
			return c
		}
		if a == False && b == True {
			return Not(c)
		}
	}
	return op("ite", a.Sort, c, a, b)
}

func Select(a, i *Term) *Term {
	if a.Sort.Val == nil {
		panic("select on non-array " + a.Sort.S)
	}
	if i.Sort != a.Sort.Key {
		panic(fmt.Sprintf("select: key sort mismatch %s vs %s", i.Sort.S, a.Sort.Key.S))
	}
	return op("select", a.Sort.Val, a, i)
}

func Store(a, i, v *Term) *Term {
	if a.Sort.Val == nil {
		panic("store on non-array " + a.Sort.S)
	}
	if v.Sort != a.Sort.Val {
		panic(fmt.Sprintf("store: value sort mismatch %s vs %s", v.Sort.S, a.Sort.Val.S))
	}
	if i.Sort != a.Sort.Key {
		panic(fmt.Sprintf("store: key sort mismatch %s vs %s", i.Sort.S, a.Sort.Key.S))
	}
	return op("store", a.Sort, a, i, v)
}

func intConst(t *Term) (int64, bool) {
	if t.Op == "lit" && t.Sort == SInt {
		s := t.Lit
		neg := false
		if strings.HasPrefix(s, "(- ") {
			neg = true
			s = s[3 : len(s)-1]
		}
		n, err := strconv.ParseInt(s, 10, 64)
		if err != nil {
			return 0, false
		}
		if neg {
			n = -n
		}
		return n, true
	}
	return 0, false
}

func Add(a, b *Term) *Term {
	x, ok1 := intConst(a)
	y, ok2 := intConst(b)
	if ok1 && ok2 && x < 1<<40 && x > -(1<<40) && y < 1<<40 && y > -(1<<40) {
		return IntLit(x + y)
	}
	if ok1 && x == 0 {
		return b
	}
	if ok2 && y == 0 {
		return a
	}
	return op("+", SInt, a, b)
}
func Sub(a, b *Term) *Term {
	x, ok1 := intConst(a)
	y, ok2 := intConst(b)
	if ok1 && ok2 && x < 1<<40 && x > -(1<<40) && y < 1<<40 && y > -(1<<40) {
		return IntLit(x - y)
	}
	if ok2 && y == 0 {
		return a
	}
	return op("-", SInt, a, b)
}
func Mul(a, b *Term) *Term { return op("*", SInt, a, b) }
func Neg(a *Term) *Term {
	if x, ok := intConst(a); ok {
		return IntLit(-x)
	}
	return op("-", SInt, a)
}
func Lt(a, b *Term) *Term { return cmpFold("<", a, b) }
func Le(a, b *Term) *Term { return cmpFold("<=", a, b) }
func Gt(a, b *Term) *Term { return cmpFold(">", a, b) }
func Ge(a, b *Term) *Term { return cmpFold(">=", a, b) }

func cmpFold(o string, a, b *Term) *Term {
	x, ok1 := intConst(a)
	y, ok2 := intConst(b)
	if ok1 && ok2 {
		switch o {
		case "<":
			return BoolLit(x < y)
		case "<=":
			return BoolLit(x <= y)
		case ">":
			return BoolLit(x > y)
		case ">=":
			return BoolLit(x >= y)
		}
	}
	return op(o, SBool, a, b)
}

func Forall(vars []*Term, body *Term, pats ...[]*Term) *Term {
	if body == True {
		return True
	}
	if len(vars) == 0 {
		return body
	}
	return &Term{Op: "forall", Sort: SBool, Vars: vars, Args: []*Term{body}, Pats: pats}
}
func Exists(vars []*Term, body *Term) *Term {
	if body == False {
		return False
	}
	if len(vars) == 0 {
		return body
	}
	return &Term{Op: "exists", Sort: SBool, Vars: vars, Args: []*Term{body}}
}

// Datatype helpers
func Ctor(s *Sort, args ...*Term) *Term {
	if len(args) != len(s.DT.Fields) {
		panic("ctor arity " + s.S)
	}
	for i, a := range args {
		if a.Sort != s.DT.Fields[i].Sort {
			panic(fmt.Sprintf("ctor %s field %s: sort %s vs %s", s.S, s.DT.Fields[i].Sel, a.Sort.S, s.DT.Fields[i].Sort.S))
		}
	}
	if len(args) == 0 {
		return &Term{Op: "ctor0", Lit: s.DT.Ctor, Sort: s}
	}
	return &Term{Op: "ctor", Lit: s.DT.Ctor, Sort: s, Args: args}
}

func Sel(t *Term, field string) *Term {
	dt := t.Sort.DT
	if dt == nil {
		panic("Sel on non-datatype " + t.Sort.S + " ." + field)
	}
	for i, f := range dt.Fields {
		if f.Sel == field {
			if t.Op == "ctor" {
				return t.Args[i]
			}
			return &Term{Op: "sel", Lit: dt.Name + "." + field, Sort: f.Sort, Args: []*Term{t}}
		}
	}
	panic("no field " + field + " in " + dt.Name)
}

func Upd(t *Term, field string, v *Term) *Term {
	dt := t.Sort.DT
	args := make([]*Term, len(dt.Fields))
	found := false
	for i, f := range dt.Fields {
		if f.Sel == field {
			args[i] = v
			found = true
		} else {
			args[i] = Sel(t, f.Sel)
		}
	}
	if !found {
		panic("Upd: no field " + field + " in " + dt.Name)
	}
	return Ctor(t.Sort, args...)
}

func (t *Term) String() string {
	if t.str != "" {
		return t.str
	}
	var b strings.Builder
	t.write(&b)
	if b.Len() > 64 {
		t.str = b.String()
		return t.str
	}
	return b.String()
}

func (t *Term) write(b *strings.Builder) {
	switch {
	case t.D != nil:
		if len(t.Args) == 0 {
			b.WriteString(t.D.Name)
			return
		}
		b.WriteByte('(')
		b.WriteString(t.D.Name)
		for _, a := range t.Args {
			b.WriteByte(' ')
			a.write(b)
		}
		b.WriteByte(')')
	case t.Op == "lit" || t.Op == "var" || t.Op == "ctor0":
		b.WriteString(t.Lit)
	case t.Op == "ctor" || t.Op == "sel":
		b.WriteByte('(')
		b.WriteString(t.Lit)
		for _, a := range t.Args {
			b.WriteByte(' ')
			a.write(b)
		}
		b.WriteByte(')')
	case t.Op == "forall" || t.Op == "exists":
		b.WriteByte('(')
		b.WriteString(t.Op)
		b.WriteString(" (")
		for _, v := range t.Vars {
			b.WriteString("(" + v.Lit + " " + v.Sort.S + ")")
		}
		b.WriteString(") ")
		if len(t.Pats) > 0 {
			b.WriteString("(! ")
		}
		t.Args[0].write(b)
		if len(t.Pats) > 0 {
			for _, p := range t.Pats {
				b.WriteString(" :pattern (")
				for i, x := range p {
					if i > 0 {
						b.WriteByte(' ')
					}
					x.write(b)
				}
				b.WriteString(")")
			}
			b.WriteString(")")
		}
		b.WriteByte(')')
	case t.Op == "constarr":
		b.WriteString("((as const " + t.Sort.S + ") ")
		t.Args[0].write(b)
		b.WriteByte(')')
	default:
		b.WriteByte('(')
		b.WriteString(t.Op)
		for _, a := range t.Args {
			b.WriteByte(' ')
			a.write(b)
		}
		b.WriteByte(')')
	}
}

func ConstArr(s *Sort, v *Term) *Term { return &Term{Op: "constarr", Sort: s, Args: []*Term{v}} }

// collect walks terms gathering declarations and datatypes.
type collector struct {
	decls map[*Decl]bool
	dts   map[*Datatype]bool
	seen  map[*Term]bool
}

func newCollector() *collector {
	return &collector{decls: map[*Decl]bool{}, dts: map[*Datatype]bool{}, seen: map[*Term]bool{}}
}

func (c *collector) sort(s *Sort) {
	if s == nil {
		return
	}
	if s.DT != nil {
		if c.dts[s.DT] {
			return
		}
		c.dts[s.DT] = true
		for _, f := range s.DT.Fields {
			c.sort(f.Sort)
		}
	}
	if s.Key != nil {
		c.sort(s.Key)
		c.sort(s.Val)
	}
}

func (c *collector) term(t *Term) {
	if c.seen[t] {
		return
	}
	c.seen[t] = true
	c.sort(t.Sort)
	if t.D != nil {
		if !c.decls[t.D] {
			c.decls[t.D] = true
			for _, a := range t.D.Args {
				c.sort(a)
			}
			c.sort(t.D.Ret)
		}
	}
	for _, v := range t.Vars {
		c.sort(v.Sort)
	}
	for _, a := range t.Args {
		c.term(a)
	}
	for _, p := range t.Pats {
		for _, x := range p {
			c.term(x)
		}
	}
}

func (c *collector) header(b *strings.Builder) {
	b.WriteString("(declare-sort Str 0)\n(declare-sort Flt 0)\n")
	var dts []*Datatype
	for d := range c.dts {
		dts = append(dts, d)
	}
	sort.Slice(dts, func(i, j int) bool { return dts[i].order < dts[j].order })
	// emit datatypes; all are non-recursive (pointers are Int) so order of creation is dependency-safe
	// only if dependencies were created first; to be safe declare them together.
	if len(dts) > 0 {
		b.WriteString("(declare-datatypes (")
		for _, d := range dts {
			b.WriteString("(" + d.Name + " 0)")
		}
		b.WriteString(") (")
		for _, d := range dts {
			b.WriteString("((" + d.Ctor)
			for _, f := range d.Fields {
				b.WriteString(" (" + d.Name + "." + f.Sel + " " + f.Sort.S + ")")
			}
			b.WriteString("))")
		}
		b.WriteString("))\n")
	}
	var ds []*Decl
	for d := range c.decls {
		ds = append(ds, d)
	}
	sort.Slice(ds, func(i, j int) bool { return ds[i].order < ds[j].order })
	pegUsed := false
	for _, d := range ds {
		if d.Name == "peg.delta" || d.Name == "peg.init" || d.Name == "peg.acc" || d.Name == "peg.owner" || d.Name == "peg.only" || d.Name == "peg.insym" {
			pegUsed = true
		}
	}
	if pegUsed && pegDefs != "" {
		b.WriteString(pegDefs)
	}
	for _, d := range ds {
		if pegDefs != "" && (d.Name == "peg.delta" || d.Name == "peg.init" || d.Name == "peg.acc" || d.Name == "peg.owner" || d.Name == "peg.only" || d.Name == "peg.insym") {
			continue
		}
		if _, isGhost := ghostDefs[d.Name]; isGhost {
			continue
		}
		b.WriteString("(declare-fun " + d.Name + " (")
		for i, a := range d.Args {
			if i > 0 {
				b.WriteByte(' ')
			}
			b.WriteString(a.S)
		}
		b.WriteString(") " + d.Ret.S + ")\n")
	}
	b.WriteString(ghostDefsText(c.decls))
}

// ForallNorm builds forall vars. guards => body in a normal form that solvers instantiate well:
// conjunctions are split, nested implications and nested universal quantifiers are merged (prenex).
func ForallNorm(vars []*Term, guards []*Term, body *Term) *Term {
	switch {
	case body.Op == "and":
		parts := make([]*Term, len(body.Args))
		for i, a := range body.Args {
			parts[i] = ForallNorm(vars, guards, a)
		}
		return And(parts...)
	case body.Op == "=>":
		g := append(append([]*Term{}, guards...), body.Args[0])
		return ForallNorm(vars, g, body.Args[1])
	case body.Op == "forall" && len(body.Pats) == 0:
		v := append(append([]*Term{}, vars...), body.Vars...)
		return ForallNorm(v, guards, body.Args[0])
	}
	// drop variables that do not occur
	used := map[string]bool{}
	var walk func(t *Term)
	walk = func(t *Term) {
		if t.Op == "var" {
			used[t.Lit] = true
		}
		for _, a := range t.Args {
			walk(a)
		}
	}
	walk(body)
	var gs []*Term
	for _, g := range guards {
		walk(g)
	}
	var vs []*Term
	for _, v := range vars {
		if used[v.Lit] {
			vs = append(vs, v)
		}
	}
	// guards that mention only unused variables' ranges are kept only if they mention a used variable or no variable
	for _, g := range guards {
		gs = append(gs, g)
	}
	return Forall(vs, Implies(And(gs...), body))
}
