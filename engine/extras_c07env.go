package main

// C07 (deterministic output), second inventory: values that depend on the process environment rather than on the IDL
// and the command line -- parallelism (runtime.GOMAXPROCS / NumCPU), clock, environment variables, pid, random numbers,
// working directory. Every call of such a source in a non-test package of the module is enumerated from /repo's
// current source on every run and must be listed in /verif/expect/C07-env.json with a class and a written reason:
//
//   exempt   the value cannot reach an output file or plugin stdin (reason says why);
//   assumed  the value is part of the invocation by convention (documented environment variable, working directory);
//   tracked  the value is stored in the named struct field or package variable; then every READ of that field or
//            variable anywhere in the module is enumerated too and must either be harmless by the rule below or be
//            listed itself (key <func>#envuse:<name>:<n>).
//
// Harmless reads of a tracked value (decided syntactically on the real AST):
//   - the condition of an `if` whose branches only assign the tracked value itself (clamping: `if c <= 0 { c = 1 }`);
//   - the capacity argument of make(chan T, n): a buffer size changes scheduling, not values.
// Any other read -- in particular a branch on the value that guards other code -- is a violation unless listed, so a
// newly introduced dependence of behaviour on the parallelism of the process is caught.

import (
	"encoding/json"
	"fmt"
	"go/ast"
	"go/token"
	"go/types"
	"os"
	"path/filepath"
	"sort"
	"strings"
)

func init() { extraGens["envsources"] = genEnvSources }

var envSourceFuncs = map[string]bool{
	"runtime.GOMAXPROCS": true, "runtime.NumCPU": true, "runtime.NumGoroutine": true,
	"time.Now": true, "time.Since": true, "time.Until": true,
	"os.Getenv": true, "os.LookupEnv": true, "os.Environ": true, "os.Getpid": true, "os.Getppid": true, "os.Hostname": true,
	"os.Getwd": true, "os.UserHomeDir": true, "os.Executable": true, "os.TempDir": true,
	"math/rand.Int": true, "math/rand.Intn": true, "math/rand.Int63": true, "math/rand.Read": true, "math/rand.Seed": true,
	"crypto/rand.Read": true,
}

type envClass struct {
	Class  string `json:"class"`
	Reason string `json:"reason"`
	Object string `json:"object,omitempty"` // tracked: "<pkgpath>.<Type>.<field>" or "<pkgpath>.<var>"
}

func objKey(o types.Object, owner string) string {
	if o.Pkg() == nil {
		return o.Name()
	}
	p := strings.TrimPrefix(o.Pkg().Path(), modulePath+"/")
	if owner != "" {
		return p + "." + owner + "." + o.Name()
	}
	return p + "." + o.Name()
}

func genEnvSources(prog *Program, cfg *PropCfg, repo, verif string) ([]*Obligation, []string) {
	var errs []string
	listed := map[string]envClass{}
	if data, err := os.ReadFile(filepath.Join(verif, "expect", "C07-env.json")); err == nil {
		if err := json.Unmarshal(data, &listed); err != nil {
			errs = append(errs, "envsources: C07-env.json: "+err.Error())
		}
	}
	used := map[string]bool{}
	var inventory []map[string]string
	tracked := map[string]string{} // object key -> source key

	type unit struct {
		name string // function key or "<pkg>.init"
		body ast.Node
		info *types.Info
	}
	var units []unit
	var pkgPaths []string
	for p := range prog.Pkgs {
		pkgPaths = append(pkgPaths, p)
	}
	sort.Strings(pkgPaths)
	for _, pp := range pkgPaths {
		p := prog.Pkgs[pp]
		if !strings.HasPrefix(p.PkgPath, modulePath) || p.TypesInfo == nil {
			continue
		}
		for _, f := range p.Syntax {
			fn := prog.Fset.Position(f.Pos()).Filename
			if strings.HasSuffix(fn, "_test.go") {
				continue
			}
			for _, d := range f.Decls {
				switch x := d.(type) {
				case *ast.FuncDecl:
					if x.Body == nil {
						continue
					}
					if obj, ok := p.TypesInfo.Defs[x.Name].(*types.Func); ok {
						units = append(units, unit{shortKey(funcKey(obj)), x.Body, p.TypesInfo})
					}
				case *ast.GenDecl:
					if x.Tok == token.VAR {
						units = append(units, unit{strings.TrimPrefix(p.PkgPath, modulePath+"/") + ".<package vars>", x, p.TypesInfo})
					}
				}
			}
		}
	}
	sort.SliceStable(units, func(i, j int) bool { return units[i].name < units[j].name })

	// 1. source calls
	ordOf := map[string]int{}
	for _, u := range units {
		ast.Inspect(u.body, func(n ast.Node) bool {
			var callee string
			switch x := n.(type) {
			case *ast.CallExpr:
				if sel, ok := ast.Unparen(x.Fun).(*ast.SelectorExpr); ok {
					if fn, ok := u.info.ObjectOf(sel.Sel).(*types.Func); ok && fn.Pkg() != nil {
						k := fn.Pkg().Path() + "." + fn.Name()
						if envSourceFuncs[k] {
							callee = k
						}
					}
				}
			}
			if callee == "" {
				return true
			}
			base := u.name + "#envsrc:" + callee
			ordOf[base]++
			key := fmt.Sprintf("%s:%d", base, ordOf[base])
			rec := map[string]string{"source": key, "position": prog.Fset.Position(n.Pos()).String()}
			lc, ok := listed[key]
			if !ok {
				errs = append(errs, "envsources: "+key+" at "+rec["position"]+": environment-dependent value is neither listed nor tracked in C07-env.json")
				return true
			}
			used[key] = true
			rec["class"], rec["reason"] = lc.Class, lc.Reason
			if lc.Class == "tracked" {
				rec["object"] = lc.Object
				tracked[lc.Object] = key
			}
			inventory = append(inventory, rec)
			prog.Assumed["C07 environment source "+key+" ("+lc.Class+"): "+lc.Reason] = true
			return true
		})
	}

	// 2. reads of tracked objects
	useOrd := map[string]int{}
	var obls []*Obligation
	for _, u := range units {
		// parents, to classify the context of a read
		parent := map[ast.Node]ast.Node{}
		var stack []ast.Node
		ast.Inspect(u.body, func(n ast.Node) bool {
			if n == nil {
				stack = stack[:len(stack)-1]
				return true
			}
			if len(stack) > 0 {
				parent[n] = stack[len(stack)-1]
			}
			stack = append(stack, n)
			return true
		})
		ast.Inspect(u.body, func(n ast.Node) bool {
			id, ok := n.(*ast.Ident)
			if !ok {
				return true
			}
			v, ok := u.info.Uses[id].(*types.Var)
			if !ok {
				return true
			}
			key := ""
			if v.IsField() {
				// owner type name from the selection
				if sel, ok := parent[id].(*ast.SelectorExpr); ok && sel.Sel == id {
					if s := u.info.Selections[sel]; s != nil {
						t := s.Recv()
						if p, ok := t.Underlying().(*types.Pointer); ok {
							t = p.Elem()
						}
						if pt, ok := t.(*types.Pointer); ok {
							t = pt.Elem()
						}
						if nt, ok := t.(*types.Named); ok {
							key = objKey(v, nt.Obj().Name())
						}
					}
				} else if kv, ok := parent[id].(*ast.KeyValueExpr); ok && kv.Key == id {
					return true // composite literal key: an initialisation, not a read
				}
			} else if v.Pkg() != nil && v.Parent() == v.Pkg().Scope() {
				key = objKey(v, "")
			}
			if key == "" {
				return true
			}
			if _, isTracked := tracked[key]; !isTracked {
				return true
			}
			// the expression that denotes the tracked value
			var expr ast.Node = id
			if sel, ok := parent[id].(*ast.SelectorExpr); ok && sel.Sel == id {
				expr = sel
			}
			// writes are not reads
			if as, ok := parent[expr].(*ast.AssignStmt); ok {
				for _, l := range as.Lhs {
					if l == expr {
						return true
					}
				}
			}
			if vs, ok := parent[id].(*ast.ValueSpec); ok {
				for _, nm := range vs.Names {
					if nm == id {
						return true
					}
				}
			}
			base := u.name + "#envuse:" + key
			useOrd[base]++
			name := fmt.Sprintf("%s:%d", base, useOrd[base])
			pos := prog.Fset.Position(id.Pos()).String()
			rec := map[string]string{"use": name, "position": pos}
			if why, ok := harmlessEnvRead(expr, parent, u.info, v); ok {
				rec["class"], rec["reason"] = "harmless", why
				inventory = append(inventory, rec)
				obls = append(obls, &Obligation{Name: name + "#harmless", Kind: "commute", Func: u.name, Desc: "read of an environment-dependent value that cannot influence values: " + why, Pos: pos,
					Raw: "(set-logic ALL)\n; structural obligation decided by the recognizer in extras_c07env.go: " + why + "\n(assert false)\n(check-sat)\n"})
				return true
			}
			if lc, ok := listed[name]; ok {
				used[name] = true
				rec["class"], rec["reason"] = lc.Class, lc.Reason
				inventory = append(inventory, rec)
				prog.Assumed["C07 use of environment-dependent value "+name+" ("+lc.Class+"): "+lc.Reason] = true
				return true
			}
			errs = append(errs, "envsources: "+name+" at "+pos+": behaviour depends on an environment-dependent value ("+key+" <- "+tracked[key]+"): the read is neither harmless by rule nor listed")
			return true
		})
	}
	for n := range listed {
		if !used[n] {
			errs = append(errs, "envsources: C07-env.json lists "+n+" but no such source or use exists")
		}
	}
	prog.Inventory = append(prog.Inventory, inventory...)
	return obls, errs
}

// harmlessEnvRead: see the file comment.
func harmlessEnvRead(expr ast.Node, parent map[ast.Node]ast.Node, info *types.Info, v *types.Var) (string, bool) {
	// capacity argument of make(chan T, n)
	if call, ok := parent[expr].(*ast.CallExpr); ok {
		if id, ok := call.Fun.(*ast.Ident); ok && id.Name == "make" && len(call.Args) == 2 && call.Args[1] == expr {
			if _, isChan := info.TypeOf(call.Args[0]).Underlying().(*types.Chan); isChan {
				return "capacity of a channel", true
			}
		}
	}
	// condition of an if whose branches only assign the tracked value
	n := expr
	for {
		p := parent[n]
		if p == nil {
			return "", false
		}
		if ifs, ok := p.(*ast.IfStmt); ok && ifs.Cond == n {
			onlyAssignsV := func(b *ast.BlockStmt) bool {
				if b == nil {
					return true
				}
				for _, st := range b.List {
					as, ok := st.(*ast.AssignStmt)
					if !ok || len(as.Lhs) != 1 {
						return false
					}
					var o types.Object
					switch l := as.Lhs[0].(type) {
					case *ast.Ident:
						o = info.ObjectOf(l)
					case *ast.SelectorExpr:
						o = info.ObjectOf(l.Sel)
					}
					if o != v {
						return false
					}
					// the assigned value must not itself come from anything but constants
					if tv, ok := info.Types[as.Rhs[0]]; !ok || tv.Value == nil {
						return false
					}
				}
				return true
			}
			var els *ast.BlockStmt
			if ifs.Else != nil {
				b, ok := ifs.Else.(*ast.BlockStmt)
				if !ok {
					return "", false
				}
				els = b
			}
			if ifs.Init == nil && onlyAssignsV(ifs.Body) && onlyAssignsV(els) {
				return "clamps the value itself to a constant", true
			}
			return "", false
		}
		switch p.(type) {
		case *ast.BinaryExpr, *ast.ParenExpr, *ast.UnaryExpr:
			n = p
		default:
			return "", false
		}
	}
}
