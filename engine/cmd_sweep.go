package main

// sweep: zero-annotation safety sweep. Every function of the given packages that has a body and no contract is verified
// with the empty contract (no precondition, modifies *): each nil dereference, index, slice bound and explicit panic
// becomes an obligation. Nothing is claimed from a pass. A failed obligation whose function is loop free is handed to
// the replay machinery; what reproduces on the real code is printed as a candidate finding (to be triaged by hand:
// most "failures" of a zero-precondition run are missing preconditions, e.g. a nil receiver).

import (
	"flag"
	"fmt"
	"os"
	"sort"
	"strings"
	"time"
)

func cmdSweep(args []string) int {
	fs := flag.NewFlagSet("sweep", flag.ExitOnError)
	repo := fs.String("repo", "/repo", "")
	pkgs := fs.String("pkgs", "", "comma separated package patterns")
	only := fs.String("only", "", "substring filter on function keys")
	exported := fs.Bool("exported", false, "only exported functions and methods")
	fs.Parse(args)
	prog, err := loadProgram(*repo, strings.Split(*pkgs, ","))
	if err != nil {
		fmt.Fprintln(os.Stderr, "load:", err)
		return 2
	}
	if err := prog.loadExtraContracts("/verif/stdlib"); err != nil {
		fmt.Fprintln(os.Stderr, err)
		return 2
	}
	want := map[string]bool{}
	for _, p := range strings.Split(*pkgs, ",") {
		want[strings.TrimPrefix(p, "./")] = true
	}
	var keys []string
	for k, fi := range prog.Funcs {
		if fi.Decl == nil || fi.Decl.Body == nil || fi.Spec != nil {
			continue
		}
		rel := strings.TrimPrefix(fi.Pkg.PkgPath, modulePath+"/")
		if !want[rel] && !(fi.Pkg.PkgPath == modulePath && want["."]) {
			continue
		}
		if strings.HasSuffix(prog.Fset.Position(fi.Decl.Pos()).Filename, "_test.go") {
			continue
		}
		if *only != "" && !strings.Contains(k, *only) {
			continue
		}
		if *exported && !fi.Decl.Name.IsExported() {
			continue
		}
		keys = append(keys, k)
	}
	sort.Strings(keys)
	var obls []*Obligation
	skipped := 0
	for _, k := range keys {
		fi := prog.Funcs[k]
		fi.Spec = &FuncSpec{Key: k, ModAll: true, Loops: map[string]*LoopSpec{}, Asserts: map[string][]*SExpr{}}
		vc := newVC(prog, fi)
		os0, err := vc.verify()
		fi.Spec = nil
		if err != nil {
			skipped++
			continue
		}
		for _, o := range os0 {
			if o.Kind == "safety" {
				obls = append(obls, o)
			}
		}
	}
	dir, _ := os.MkdirTemp("", "govc-sweep")
	defer os.RemoveAll(dir)
	axioms := programAxioms(prog)
	prog.discharge(obls, axioms, solveOpts{timeout: 4 * time.Second, dir: dir, jobs: solverJobs(), noRetry: true})
	nsat := 0
	for _, o := range obls {
		if o.Status != "sat" {
			continue
		}
		nsat++
		line := fmt.Sprintf("SAT %-70s %s  %s", o.Name, o.Pos, trunc(o.Desc, 80))
		// replay needs a contract object on the function
		o.VCtx.fn.Spec = &FuncSpec{Key: o.VCtx.fn.Key, ModAll: true, Loops: map[string]*LoopSpec{}, Asserts: map[string][]*SExpr{}}
		rp := prog.tryReplay(o, axioms, *repo)
		o.VCtx.fn.Spec = nil
		if rp.Reproduced {
			fmt.Println("REPRODUCED", line)
			fmt.Println(indent(rp.TestSource, "    | "))
			fmt.Println(indent(rp.Output, "    > "))
		} else {
			fmt.Println(line, " [not replayed:", rp.Reason, "]")
		}
	}
	fmt.Printf("sweep: %d functions (%d outside the subset), %d safety obligations, %d with a model\n", len(keys), skipped, len(obls), nsat)
	return 0
}

func indent(s, p string) string {
	return p + strings.ReplaceAll(strings.TrimRight(s, "\n"), "\n", "\n"+p)
}
