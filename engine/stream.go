package main

// Ghost output stream (property C09): the bytes a protocol object has been asked to write, as ghost state
//   GH.wbyte : position -> byte value,  GH.wbool : position -> 1 if the byte was emitted by WriteBool,  GH.wpos[0] : length.
// The stream is changed only by functions whose contract says "modifies $wstream"; their ensures clauses describe
// the change with the builtins below. wpos is a natural number by type.
//
//   wpos()            current length
//   wbyte(k) wbool(k) byte value / bool marker at position k
//   wrote(n)          exactly n bytes were appended since old(): length grew by n, every earlier position is unchanged,
//                     the new bytes are in 0..255
//   wkept()           the stream only grew: every position below old(wpos()) is unchanged
//   wdepth()          nesting depth of struct begin/end events; wrote(n) leaves it unchanged, wnest(d) moves it by d
//                     without writing bytes
//   wplain(n)         none of the n bytes appended since old() is a bool byte
//   wbe(p, n)         big-endian value of the n stream bytes at p
//   bepack(xs, o, n)  big-endian value of the n bytes xs[o..o+n)
//   signed(x, bits)   two's-complement reading of x modulo 2^bits
//   sgn(x, bits)      the same for x already in 0 .. 2^bits-1, written without a modulus
//   usg(v, bits)      unsigned reading of a signed bits-wide value v;  umod(x, bits) = x mod 2^bits
//   fltbits(f)        math.Float64bits(f)

import (
	"fmt"
	"go/types"
	"strings"
)

var streamArrs = []string{"GH.wbyte", "GH.wbool", "GH.wpos"}

func (vc *VC) streamArr(s *State, name string) *Term {
	return vc.heapArr(s, name, ArraySort(SInt, SInt))
}

func (vc *VC) streamPos(s *State) *Term {
	p := Select(vc.streamArr(s, "GH.wpos"), IntLit(0))
	s.assume(Ge(p, IntLit(0)))
	return p
}

func (env *SpecEnv) streamBuiltin(name string, e *SExpr) (TV, bool) {
	vc := env.vc
	I := types.Typ[types.Int]
	B := types.Typ[types.Bool]
	arg := func(i int) *Term { return env.eval(e.Args[i]).T }
	needOld := func() *State {
		if env.old == nil {
			env.fail(e, name+"() needs an old state")
		}
		return env.old
	}
	switch name {
	case "wpos":
		return TV{vc.streamPos(env.st), I}, true
	case "wbyte":
		return TV{Select(vc.streamArr(env.st, "GH.wbyte"), arg(0)), I}, true
	case "wbool":
		return TV{Eq(Select(vc.streamArr(env.st, "GH.wbool"), arg(0)), IntLit(1)), B}, true
	case "wdepth":
		// nesting depth of struct begin/end events (GH.wpos[1])
		return TV{Select(vc.streamArr(env.st, "GH.wpos"), IntLit(1)), I}, true
	case "wkept", "wrote", "wnest":
		old := needOld()
		p0, p1 := vc.streamPos(old), vc.streamPos(env.st)
		d0, d1 := Select(vc.streamArr(old, "GH.wpos"), IntLit(1)), Select(vc.streamArr(env.st, "GH.wpos"), IntLit(1))
		k := BoundVar("wk", SInt)
		nb, ob := vc.streamArr(env.st, "GH.wbyte"), vc.streamArr(old, "GH.wbyte")
		nm, om := vc.streamArr(env.st, "GH.wbool"), vc.streamArr(old, "GH.wbool")
		var keep *Term
		if nb == ob && nm == om {
			keep = True
		} else {
			g := Lt(k, p0)
			keep = And(
				Forall([]*Term{k}, Implies(g, Eq(Select(nb, k), Select(ob, k))), []*Term{Select(nb, k)}),
				Forall([]*Term{k}, Implies(g, Eq(Select(nm, k), Select(om, k))), []*Term{Select(nm, k)}))
		}
		if name == "wkept" {
			return TV{And(Ge(p1, p0), keep), B}, true
		}
		if name == "wnest" {
			// a struct begin (+1) or end (-1) event: no bytes, the nesting depth moves by the argument
			return TV{And(Eq(p1, p0), keep, Eq(d1, Add(d0, arg(0)))), B}, true
		}
		n := arg(0)
		rng := Forall([]*Term{k}, Implies(And(Le(p0, k), Lt(k, p1)), And(Le(IntLit(0), Select(nb, k)), Le(Select(nb, k), IntLit(255)))), []*Term{Select(nb, k)})
		dd := IntLit(0)
		if len(e.Args) > 1 {
			dd = arg(1) // wrote(n, d): additionally the nesting depth moved by d
		}
		return TV{And(Eq(p1, Add(p0, n)), keep, rng, Eq(d1, Add(d0, dd))), B}, true
	case "wplain":
		old := needOld()
		p0, p1 := vc.streamPos(old), vc.streamPos(env.st)
		k := BoundVar("wk", SInt)
		nm := vc.streamArr(env.st, "GH.wbool")
		return TV{Forall([]*Term{k}, Implies(And(Le(p0, k), Lt(k, p1)), Not(Eq(Select(nm, k), IntLit(1)))), []*Term{Select(nm, k)}), B}, true
	case "wbe":
		n, ok := intConst(arg(1))
		if !ok {
			env.fail(e, "wbe: width must be a constant")
		}
		return TV{bePack(vc.streamArr(env.st, "GH.wbyte"), arg(0), int(n)), I}, true
	case "bepack":
		xs := arg(0)
		n, ok := intConst(arg(2))
		if !ok || !isSliceSort(xs.Sort) {
			env.fail(e, "bepack(xs, off, n): xs a byte slice, n a constant")
		}
		return TV{bePack(sliceElems(xs), arg(1), int(n)), I}, true
	case "signed":
		bits, ok := intConst(arg(1))
		if !ok || bits < 1 || bits > 64 {
			env.fail(e, "signed(x, bits): bits must be a constant in 1..64")
		}
		m, half := BigLit(pow2(int(bits))), BigLit(pow2(int(bits)-1))
		return TV{Sub(op("mod", SInt, Add(arg(0), half), m), half), I}, true
	case "sgn":
		// two's-complement reading of a value already in 0 .. 2^bits-1 (no modulus: cheaper for the solver)
		bits, ok := intConst(arg(1))
		if !ok || bits < 1 || bits > 64 {
			env.fail(e, "sgn(x, bits): bits must be a constant in 1..64")
		}
		x := arg(0)
		return TV{Ite(Ge(x, BigLit(pow2(int(bits)-1))), Sub(x, BigLit(pow2(int(bits)))), x), I}, true
	case "usg", "umod":
		bits, ok := intConst(arg(1))
		if !ok || bits < 1 || bits > 64 {
			env.fail(e, name+"(x, bits): bits must be a constant in 1..64")
		}
		x := arg(0)
		if name == "umod" {
			return TV{op("mod", SInt, x, BigLit(pow2(int(bits)))), I}, true
		}
		// unsigned reading of a value in -2^(bits-1) .. 2^(bits-1)-1: a named function, defined by usgAxioms, so that
		// equal arguments give equal terms without arithmetic
		return TV{App(fmt.Sprintf("spec.usg.%d", bits), SInt, x), I}, true
	case "fltbits":
		f := arg(0)
		r := App("flt.bits", SInt, f)
		env.st.assume(And(Le(IntLit(0), r), Le(r, BigLit("18446744073709551615"))))
		env.st.assume(Eq(App("flt.frombits", SFloat, r), f))
		return TV{r, I}, true
	}
	return TV{}, false
}

// isStreamMod recognises the modifies target $wstream.
func isStreamMod(m *SExpr) bool { return m.K == "id" && m.Name == "$wstream" }

func specModifiesStream(spec *FuncSpec) bool {
	if spec == nil {
		return false
	}
	for _, m := range spec.Modifies {
		if isStreamMod(m) {
			return true
		}
	}
	return false
}

// usgAxioms: definition of spec.usg.<bits>(v) = v < 0 ? v + 2^bits : v.
func usgAxioms(used map[*Decl]bool) []*Term {
	var out []*Term
	for name, d := range declTab {
		if !strings.HasPrefix(name, "spec.usg.") || !used[d] {
			continue
		}
		var bits int
		fmt.Sscanf(name, "spec.usg.%d", &bits)
		v := BoundVar("uv", SInt)
		u := App(name, SInt, v)
		out = append(out, Forall([]*Term{v}, Eq(u, Ite(Lt(v, IntLit(0)), Add(v, BigLit(pow2(bits))), v)), []*Term{u}))
	}
	return out
}
