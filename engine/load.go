package main

// Loading /repo packages and contract files.

import (
	"fmt"
	"go/ast"
	"go/constant"
	"go/token"
	"go/types"
	"os"
	"path/filepath"
	"sort"
	"strings"

	"golang.org/x/tools/go/packages"
)

type packagesPkg = packages.Package

const modulePath = "github.com/cloudwego/thriftgo"

func loadProgram(repo string, patterns []string) (*Program, error) {
	fset := token.NewFileSet()
	cfg := &packages.Config{
		Mode:       packages.NeedName | packages.NeedFiles | packages.NeedCompiledGoFiles | packages.NeedImports | packages.NeedDeps | packages.NeedTypes | packages.NeedSyntax | packages.NeedTypesInfo | packages.NeedTypesSizes | packages.NeedModule,
		Dir:        repo,
		Fset:       fset,
		BuildFlags: []string{"-tags=verif"},
		Env:        append(os.Environ(), "GOFLAGS=-mod=mod", "GOPROXY=off", "GOSUMDB=off", "GOTOOLCHAIN=local"),
	}
	pkgs, err := packages.Load(cfg, patterns...)
	if err != nil {
		return nil, err
	}
	prog := &Program{Repo: repo, Fset: fset, Pkgs: map[string]*packages.Package{}, Funcs: map[string]*FuncInfo{}, ByObj: map[*types.Func]*FuncInfo{},
		Specs: map[string]*FuncSpec{}, Pures: map[string]*PureFunc{}, AxPkg: map[string]string{},
		footprints: map[*FuncInfo]*footprintT{}, Assumed: map[string]bool{}, Uncontracted: map[string]bool{}, Inlined: map[string]bool{}, Abstracted: map[string]bool{}}
	var errs []string
	packages.Visit(pkgs, nil, func(p *packages.Package) {
		for _, e := range p.Errors {
			if strings.HasPrefix(p.PkgPath, modulePath) {
				errs = append(errs, e.Error())
			}
		}
		prog.Pkgs[p.PkgPath] = p
	})
	if len(errs) > 0 {
		return nil, fmt.Errorf("package errors: %s", strings.Join(errs, "; "))
	}
	var paths []string
	for path := range prog.Pkgs {
		paths = append(paths, path)
	}
	sort.Strings(paths)
	for _, path := range paths {
		p := prog.Pkgs[path]
		if p.TypesInfo == nil {
			continue
		}
		for _, f := range p.Syntax {
			for _, d := range f.Decls {
				fd, ok := d.(*ast.FuncDecl)
				if !ok {
					continue
				}
				obj, ok := p.TypesInfo.Defs[fd.Name].(*types.Func)
				if !ok {
					continue
				}
				fi := &FuncInfo{Key: funcKey(obj), Obj: obj, Decl: fd, Pkg: p}
				prog.Funcs[fi.Key] = fi
				prog.ByObj[obj] = fi
			}
		}
		if strings.HasPrefix(path, modulePath) {
			registerTableLiterals(prog, p)
		}
		if !strings.HasPrefix(path, modulePath) {
			continue
		}
		// contract files
		for _, gf := range p.CompiledGoFiles {
			if !strings.HasSuffix(gf, "_verif.go") {
				continue
			}
			cf, err := parseContractFile(gf, path)
			if err != nil {
				return nil, err
			}
			if err := prog.addContracts(cf); err != nil {
				return nil, err
			}
		}
	}
	prog.scanGlobals()
	return prog, nil
}

// scanGlobals finds package-level variables that are never assigned and never have their address taken
// anywhere in the loaded module packages: their value is their initialiser (zero if none).
func (prog *Program) scanGlobals() {
	prog.MutableGlobals = map[*types.Var]bool{}
	prog.AddrTakenGlobals = map[*types.Var]bool{}
	prog.WrittenMaps = map[*types.Var]bool{}
	prog.GlobalInit = map[*types.Var]ast.Expr{}
	prog.GlobalInfo = map[*types.Var]*packages.Package{}
	for _, p := range prog.Pkgs {
		if p.TypesInfo == nil {
			continue
		}
		info := p.TypesInfo
		mark := func(e ast.Expr) {
			for {
				switch x := ast.Unparen(e).(type) {
				case *ast.Ident:
					if v, ok := info.ObjectOf(x).(*types.Var); ok && v.Pkg() != nil && v.Parent() == v.Pkg().Scope() {
						prog.MutableGlobals[v] = true
					}
					return
				case *ast.SelectorExpr:
					if _, isSel := info.Selections[x]; !isSel {
						if v, ok := info.ObjectOf(x.Sel).(*types.Var); ok && v.Pkg() != nil && v.Parent() == v.Pkg().Scope() {
							prog.MutableGlobals[v] = true
						}
						return
					}
					// field of a struct-valued global: the global's value changes
					if _, isPtr := info.TypeOf(x.X).Underlying().(*types.Pointer); isPtr {
						return
					}
					e = x.X
				case *ast.IndexExpr:
					if _, isArr := info.TypeOf(x.X).Underlying().(*types.Array); isArr {
						e = x.X
						continue
					}
					if _, isMap := info.TypeOf(x.X).Underlying().(*types.Map); isMap {
						if g := globalVarOf(x.X, info); g != nil {
							prog.WrittenMaps[g] = true
						}
					}
					return
				default:
					return
				}
			}
		}
		for _, f := range p.Syntax {
			for _, d := range f.Decls {
				if gd, ok := d.(*ast.GenDecl); ok && gd.Tok == token.VAR {
					for _, sp := range gd.Specs {
						vs := sp.(*ast.ValueSpec)
						for i, nm := range vs.Names {
							if v, ok := info.Defs[nm].(*types.Var); ok {
								prog.GlobalInfo[v] = p
								if len(vs.Values) == len(vs.Names) {
									prog.GlobalInit[v] = vs.Values[i]
								} else if len(vs.Values) > 0 {
									prog.MutableGlobals[v] = true // multi-value initialiser: treat as unknown
								}
							}
						}
					}
				}
			}
			ast.Inspect(f, func(n ast.Node) bool {
				switch x := n.(type) {
				case *ast.CallExpr:
					// g.M(...) with a pointer-receiver method on a package-level struct value: implicit &g
					if sel, ok := ast.Unparen(x.Fun).(*ast.SelectorExpr); ok {
						if s := info.Selections[sel]; s != nil && s.Kind() == types.MethodVal {
							if m, ok := s.Obj().(*types.Func); ok {
								if _, ptrRecv := m.Type().(*types.Signature).Recv().Type().(*types.Pointer); ptrRecv {
									if _, isPtr := info.TypeOf(sel.X).Underlying().(*types.Pointer); !isPtr {
										if id, ok := ast.Unparen(sel.X).(*ast.Ident); ok {
											if v, ok := info.ObjectOf(id).(*types.Var); ok && v.Pkg() != nil && v.Parent() == v.Pkg().Scope() {
												prog.AddrTakenGlobals[v] = true
												prog.MutableGlobals[v] = true
											}
										}
									}
								}
							}
						}
					}
					// a global map passed to any function (including delete) may be written
					for _, a := range x.Args {
						if g := globalVarOf(a, info); g != nil {
							if _, isMap := g.Type().Underlying().(*types.Map); isMap {
								if id, ok := x.Fun.(*ast.Ident); !ok || id.Name != "len" {
									prog.WrittenMaps[g] = true
								}
							}
						}
					}
				case *ast.AssignStmt:
					for _, r := range x.Rhs {
						// aliasing a global map to another variable: give up on constness
						if g := globalVarOf(r, info); g != nil {
							if _, isMap := g.Type().Underlying().(*types.Map); isMap {
								prog.WrittenMaps[g] = true
							}
						}
					}
					if x.Tok != token.DEFINE {
						for _, l := range x.Lhs {
							mark(l)
						}
					}
				case *ast.IncDecStmt:
					mark(x.X)
				case *ast.UnaryExpr:
					if x.Op == token.AND {
						mark(x.X)
						switch y := ast.Unparen(x.X).(type) {
						case *ast.Ident:
							if v, ok := info.ObjectOf(y).(*types.Var); ok && v.Pkg() != nil && v.Parent() == v.Pkg().Scope() {
								prog.AddrTakenGlobals[v] = true
							}
						case *ast.SelectorExpr:
							if _, isSel := info.Selections[y]; !isSel {
								if v, ok := info.ObjectOf(y.Sel).(*types.Var); ok && v.Pkg() != nil && v.Parent() == v.Pkg().Scope() {
									prog.AddrTakenGlobals[v] = true
								}
							}
						}
					}
				case *ast.RangeStmt:
					if x.Tok == token.ASSIGN {
						if x.Key != nil {
							mark(x.Key)
						}
						if x.Value != nil {
							mark(x.Value)
						}
					}
				}
				return true
			})
		}
	}
}

func (prog *Program) addContracts(cf *ContractFile) error {
	for _, fs := range cf.Funcs {
		if _, dup := prog.Specs[fs.Key]; dup {
			return fmt.Errorf("%s:%d: duplicate contract for %s", fs.File, fs.Line, fs.Key)
		}
		prog.Specs[fs.Key] = fs
		if fi, ok := prog.Funcs[fs.Key]; ok {
			fi.Spec = fs
		}
	}
	for _, pf := range cf.Pures {
		prog.Pures[cf.PkgPath+"."+pf.Name] = pf
		prog.Pures[pf.Name] = pf
	}
	for _, ax := range cf.Axioms {
		prog.Axioms = append(prog.Axioms, ax)
		prog.AxPkg[ax.Name] = cf.PkgPath
	}
	return nil
}

// loadExtraContracts loads contract files kept under /verif (for library packages that cannot carry them).
func (prog *Program) loadExtraContracts(dir string) error {
	files, _ := filepath.Glob(filepath.Join(dir, "*.spec"))
	sort.Strings(files)
	for _, f := range files {
		data, err := os.ReadFile(f)
		if err != nil {
			return err
		}
		pkgPath := ""
		for _, l := range strings.Split(string(data), "\n") {
			l = strings.TrimSpace(l)
			if strings.HasPrefix(l, "//@ package ") {
				pkgPath = strings.TrimSpace(strings.TrimPrefix(l, "//@ package "))
			}
		}
		if pkgPath == "" {
			return fmt.Errorf("%s: missing //@ package line", f)
		}
		// strip the package line
		tmp := strings.ReplaceAll(string(data), "//@ package "+pkgPath, "")
		tf, err := os.CreateTemp("", "spec*.go")
		if err != nil {
			return err
		}
		tf.WriteString(tmp)
		tf.Close()
		cf, err := parseContractFile(tf.Name(), pkgPath)
		os.Remove(tf.Name())
		if err != nil {
			return fmt.Errorf("%s: %v", f, err)
		}
		for _, fs := range cf.Funcs {
			fs.File = f
		}
		if err := prog.addContracts(cf); err != nil {
			return err
		}
	}
	return nil
}

func globalVarOf(e ast.Expr, info *types.Info) *types.Var {
	switch y := ast.Unparen(e).(type) {
	case *ast.Ident:
		if v, ok := info.ObjectOf(y).(*types.Var); ok && v.Pkg() != nil && v.Parent() == v.Pkg().Scope() {
			return v
		}
	case *ast.SelectorExpr:
		if _, isSel := info.Selections[y]; !isSel {
			if v, ok := info.ObjectOf(y.Sel).(*types.Var); ok && v.Pkg() != nil && v.Parent() == v.Pkg().Scope() {
				return v
			}
		}
	}
	return nil
}

// registerTableLiterals makes the function literals of package-level tables addressable by contracts: for
//
//	var tab = []T{ {name: "x", action: func(...) ... {...}}, ... }
//
// the literal gets the key <pkg>.tab$x$action (the string is the value of the element's field called `name`). The
// literal is then verified like a declared function (its body is the real code; the synthesized declaration only gives
// it a name). Contracts name it `func tab$x$action(params) results`.
func registerTableLiterals(prog *Program, p *packages.Package) {
	info := p.TypesInfo
	for _, f := range p.Syntax {
		for _, d := range f.Decls {
			gd, ok := d.(*ast.GenDecl)
			if !ok || gd.Tok != token.VAR {
				continue
			}
			for _, sp := range gd.Specs {
				vs := sp.(*ast.ValueSpec)
				for i, nm := range vs.Names {
					if i >= len(vs.Values) {
						continue
					}
					tab, ok := ast.Unparen(vs.Values[i]).(*ast.CompositeLit)
					if !ok {
						continue
					}
					for _, el := range tab.Elts {
						row, ok := el.(*ast.CompositeLit)
						if !ok {
							continue
						}
						rowName := ""
						for _, kv := range row.Elts {
							if kv, ok := kv.(*ast.KeyValueExpr); ok {
								if k, ok := kv.Key.(*ast.Ident); ok && k.Name == "name" {
									if tv, ok := info.Types[kv.Value]; ok && tv.Value != nil && tv.Value.Kind() == constant.String {
										rowName = constant.StringVal(tv.Value)
									}
								}
							}
						}
						if rowName == "" {
							continue
						}
						for _, kv := range row.Elts {
							kv, ok := kv.(*ast.KeyValueExpr)
							if !ok {
								continue
							}
							k, ok := kv.Key.(*ast.Ident)
							lit, ok2 := ast.Unparen(kv.Value).(*ast.FuncLit)
							if !ok || !ok2 {
								continue
							}
							sig, ok := info.TypeOf(lit).(*types.Signature)
							if !ok {
								continue
							}
							name := nm.Name + "$" + rowName + "$" + k.Name
							obj := types.NewFunc(lit.Pos(), p.Types, name, sig)
							fd := &ast.FuncDecl{Name: ast.NewIdent(name), Type: lit.Type, Body: lit.Body}
							fi := &FuncInfo{Key: p.PkgPath + "." + name, Obj: obj, Decl: fd, Pkg: p}
							prog.Funcs[fi.Key] = fi
						}
					}
				}
			}
		}
	}
}
