package main

// PEG shape theory (property C03): from parser/thrift.peg, read on every run, derive for each rule R the regular
// language L(R) of the child sequences a syntax-tree node of kind R can have after tokens32.AST() has dropped empty
// tokens and nested the rest by range; build one DFA per rule; give the solver the transition table and the axioms
// that tie it to node32's fields up/next/pegRule/begin/end. '/' is read as union and '* + ?' as regular operators,
// predicates contribute nothing: an over-approximation of the trees the real (ordered-choice, greedy) matcher
// builds, so a walker proved safe on it is safe on every real tree.

import (
	"fmt"
	"go/constant"
	"go/types"
	"os"
	"path/filepath"
	"sort"
	"strings"
)

type pegExpr struct {
	K    string // seq alt star plus opt not and ref lit class dot cap
	Sub  []*pegExpr
	Name string
	N    int // literal length
}

type pegGrammar struct {
	Rules map[string]*pegExpr
	Order []string
	ml    func(e *pegExpr) int
}

type pegLexer struct {
	s   string
	pos int
}

func (l *pegLexer) ws() {
	for l.pos < len(l.s) {
		c := l.s[l.pos]
		if c == ' ' || c == '\t' || c == '\n' || c == '\r' {
			l.pos++
		} else if c == '#' {
			for l.pos < len(l.s) && l.s[l.pos] != '\n' {
				l.pos++
			}
		} else {
			break
		}
	}
}

func isIdentChar(c byte) bool {
	return c == '_' || (c >= 'a' && c <= 'z') || (c >= 'A' && c <= 'Z') || (c >= '0' && c <= '9')
}

func (l *pegLexer) ident() string {
	st := l.pos
	for l.pos < len(l.s) && isIdentChar(l.s[l.pos]) {
		l.pos++
	}
	return l.s[st:l.pos]
}

// atRuleStart: Identifier followed by "<-"
func (l *pegLexer) atRuleStart() bool {
	save := l.pos
	defer func() { l.pos = save }()
	l.ws()
	if l.pos >= len(l.s) || !isIdentChar(l.s[l.pos]) {
		return false
	}
	l.ident()
	l.ws()
	return strings.HasPrefix(l.s[l.pos:], "<-")
}

func parsePEG(src string) (*pegGrammar, error) {
	// skip header up to the first rule
	l := &pegLexer{s: src}
	i := strings.Index(src, "Peg {")
	if i >= 0 {
		j := strings.Index(src[i:], "}")
		l.pos = i + j + 1
	}
	g := &pegGrammar{Rules: map[string]*pegExpr{}}
	for {
		l.ws()
		if l.pos >= len(l.s) {
			break
		}
		if !l.atRuleStart() {
			return nil, fmt.Errorf("peg: rule expected at offset %d", l.pos)
		}
		l.ws()
		name := l.ident()
		l.ws()
		l.pos += 2
		e, err := l.alt()
		if err != nil {
			return nil, fmt.Errorf("peg: rule %s: %v", name, err)
		}
		g.Rules[name] = e
		g.Order = append(g.Order, name)
	}
	return g, nil
}

func (l *pegLexer) alt() (*pegExpr, error) {
	first, err := l.seq()
	if err != nil {
		return nil, err
	}
	alts := []*pegExpr{first}
	for {
		l.ws()
		if l.pos < len(l.s) && l.s[l.pos] == '/' {
			l.pos++
			n, err := l.seq()
			if err != nil {
				return nil, err
			}
			alts = append(alts, n)
		} else {
			break
		}
	}
	if len(alts) == 1 {
		return first, nil
	}
	return &pegExpr{K: "alt", Sub: alts}, nil
}

func (l *pegLexer) seq() (*pegExpr, error) {
	var parts []*pegExpr
	for {
		l.ws()
		if l.pos >= len(l.s) {
			break
		}
		c := l.s[l.pos]
		if c == '/' || c == ')' || c == '>' {
			break
		}
		if l.atRuleStart() {
			break
		}
		p, err := l.prefix()
		if err != nil {
			return nil, err
		}
		parts = append(parts, p)
	}
	if len(parts) == 1 {
		return parts[0], nil
	}
	return &pegExpr{K: "seq", Sub: parts}, nil
}

func (l *pegLexer) prefix() (*pegExpr, error) {
	l.ws()
	c := l.s[l.pos]
	if c == '!' || c == '&' {
		l.pos++
		p, err := l.suffix()
		if err != nil {
			return nil, err
		}
		k := "not"
		if c == '&' {
			k = "and"
		}
		return &pegExpr{K: k, Sub: []*pegExpr{p}}, nil
	}
	return l.suffix()
}

func (l *pegLexer) suffix() (*pegExpr, error) {
	p, err := l.primary()
	if err != nil {
		return nil, err
	}
	for l.pos < len(l.s) {
		switch l.s[l.pos] {
		case '*':
			p = &pegExpr{K: "star", Sub: []*pegExpr{p}}
		case '+':
			p = &pegExpr{K: "plus", Sub: []*pegExpr{p}}
		case '?':
			p = &pegExpr{K: "opt", Sub: []*pegExpr{p}}
		default:
			return p, nil
		}
		l.pos++
	}
	return p, nil
}

func (l *pegLexer) primary() (*pegExpr, error) {
	l.ws()
	if l.pos >= len(l.s) {
		return nil, fmt.Errorf("unexpected end")
	}
	c := l.s[l.pos]
	switch {
	case c == '(':
		l.pos++
		e, err := l.alt()
		if err != nil {
			return nil, err
		}
		l.ws()
		if l.pos >= len(l.s) || l.s[l.pos] != ')' {
			return nil, fmt.Errorf("missing )")
		}
		l.pos++
		return e, nil
	case c == '<':
		l.pos++
		e, err := l.alt()
		if err != nil {
			return nil, err
		}
		l.ws()
		if l.pos >= len(l.s) || l.s[l.pos] != '>' {
			return nil, fmt.Errorf("missing >")
		}
		l.pos++
		return &pegExpr{K: "cap", Sub: []*pegExpr{e}}, nil
	case c == '\'' || c == '"':
		l.pos++
		n := 0
		for l.pos < len(l.s) && l.s[l.pos] != c {
			if l.s[l.pos] == '\\' {
				l.pos++
			}
			l.pos++
			n++
		}
		l.pos++
		return &pegExpr{K: "lit", N: n}, nil
	case c == '[':
		l.pos++
		for l.pos < len(l.s) && l.s[l.pos] != ']' {
			if l.s[l.pos] == '\\' {
				l.pos++
			}
			l.pos++
		}
		l.pos++
		return &pegExpr{K: "class"}, nil
	case c == '.':
		l.pos++
		return &pegExpr{K: "dot"}, nil
	case isIdentChar(c):
		return &pegExpr{K: "ref", Name: l.ident()}, nil
	}
	return nil, fmt.Errorf("unexpected %q", c)
}

// ---- analyses ----

const pegInf = 1 << 30

func (g *pegGrammar) minLens() map[string]int {
	m := map[string]int{}
	for _, r := range g.Order {
		m[r] = pegInf
	}
	var ml func(e *pegExpr) int
	ml = func(e *pegExpr) int {
		switch e.K {
		case "seq":
			s := 0
			for _, x := range e.Sub {
				v := ml(x)
				if v >= pegInf {
					return pegInf
				}
				s += v
			}
			return s
		case "alt":
			b := pegInf
			for _, x := range e.Sub {
				if v := ml(x); v < b {
					b = v
				}
			}
			return b
		case "star", "opt", "not", "and":
			return 0
		case "plus", "cap":
			return ml(e.Sub[0])
		case "ref":
			return m[e.Name]
		case "lit":
			return e.N
		case "class", "dot":
			return 1
		}
		return 0
	}
	for changed := true; changed; {
		changed = false
		for _, r := range g.Order {
			if v := ml(g.Rules[r]); v < m[r] {
				m[r] = v
				changed = true
			}
		}
	}
	g.ml = ml
	return m
}

// symbol regular expressions over node kinds
type symRe struct {
	K   string // eps sym seq alt star
	Sym string
	Sub []*symRe
}

var symEps = &symRe{K: "eps"}

func (g *pegGrammar) childLang(e *pegExpr, minLen map[string]int, caps *[]*pegExpr) *symRe {
	switch e.K {
	case "seq":
		var ps []*symRe
		for _, x := range e.Sub {
			ps = append(ps, g.childLang(x, minLen, caps))
		}
		return &symRe{K: "seq", Sub: ps}
	case "alt":
		var ps []*symRe
		for _, x := range e.Sub {
			ps = append(ps, g.childLang(x, minLen, caps))
		}
		return &symRe{K: "alt", Sub: ps}
	case "star":
		return &symRe{K: "star", Sub: []*symRe{g.childLang(e.Sub[0], minLen, caps)}}
	case "plus":
		x := g.childLang(e.Sub[0], minLen, caps)
		return &symRe{K: "seq", Sub: []*symRe{x, {K: "star", Sub: []*symRe{x}}}}
	case "opt":
		return &symRe{K: "alt", Sub: []*symRe{g.childLang(e.Sub[0], minLen, caps), symEps}}
	case "not", "and", "lit", "class", "dot":
		return symEps
	case "ref":
		s := &symRe{K: "sym", Sym: e.Name}
		if minLen[e.Name] == 0 {
			return &symRe{K: "alt", Sub: []*symRe{s, symEps}}
		}
		return s
	case "cap":
		*caps = append(*caps, e.Sub[0])
		s := &symRe{K: "sym", Sym: "PegText"}
		if g.ml(e.Sub[0]) == 0 {
			return &symRe{K: "alt", Sub: []*symRe{s, symEps}}
		}
		return s
	}
	return symEps
}

// ---- NFA / DFA ----

type nfa struct {
	eps   map[int][]int
	trans map[int]map[string][]int
	n     int
}

func (a *nfa) newState() int   { a.n++; return a.n - 1 }
func (a *nfa) addEps(f, t int) { a.eps[f] = append(a.eps[f], t) }
func (a *nfa) addTrans(f int, s string, t int) {
	if a.trans[f] == nil {
		a.trans[f] = map[string][]int{}
	}
	a.trans[f][s] = append(a.trans[f][s], t)
}

func (a *nfa) build(r *symRe) (int, int) {
	switch r.K {
	case "eps":
		s := a.newState()
		return s, s
	case "sym":
		s, t := a.newState(), a.newState()
		a.addTrans(s, r.Sym, t)
		return s, t
	case "seq":
		if len(r.Sub) == 0 {
			s := a.newState()
			return s, s
		}
		s, t := a.build(r.Sub[0])
		for _, x := range r.Sub[1:] {
			s2, t2 := a.build(x)
			a.addEps(t, s2)
			t = t2
		}
		return s, t
	case "alt":
		s, t := a.newState(), a.newState()
		for _, x := range r.Sub {
			s2, t2 := a.build(x)
			a.addEps(s, s2)
			a.addEps(t2, t)
		}
		return s, t
	case "star":
		s, t := a.newState(), a.newState()
		s2, t2 := a.build(r.Sub[0])
		a.addEps(s, s2)
		a.addEps(t2, s2)
		a.addEps(t2, t)
		a.addEps(s, t)
		return s, t
	}
	s := a.newState()
	return s, s
}

func (a *nfa) closure(set map[int]bool) map[int]bool {
	stack := []int{}
	for s := range set {
		stack = append(stack, s)
	}
	for len(stack) > 0 {
		s := stack[len(stack)-1]
		stack = stack[:len(stack)-1]
		for _, t := range a.eps[s] {
			if !set[t] {
				set[t] = true
				stack = append(stack, t)
			}
		}
	}
	return set
}

func setKey(set map[int]bool) string {
	var ks []int
	for k := range set {
		ks = append(ks, k)
	}
	sort.Ints(ks)
	return fmt.Sprint(ks)
}

type ruleDFA struct {
	Init   int
	States int
	Acc    map[int]bool
	Trans  map[int]map[string]int
	InSym  map[int]string
}

func toDFA(r *symRe) *ruleDFA {
	a := &nfa{eps: map[int][]int{}, trans: map[int]map[string][]int{}}
	s, t := a.build(r)
	d := &ruleDFA{Acc: map[int]bool{}, Trans: map[int]map[string]int{}}
	ids := map[string]int{}
	var sets []map[int]bool
	add := func(set map[int]bool) int {
		k := setKey(set)
		if id, ok := ids[k]; ok {
			return id
		}
		id := len(sets)
		ids[k] = id
		sets = append(sets, set)
		if set[t] {
			d.Acc[id] = true
		}
		return id
	}
	d.Init = add(a.closure(map[int]bool{s: true}))
	for i := 0; i < len(sets); i++ {
		bySym := map[string]map[int]bool{}
		for st := range sets[i] {
			for sym, ts := range a.trans[st] {
				if bySym[sym] == nil {
					bySym[sym] = map[int]bool{}
				}
				for _, x := range ts {
					bySym[sym][x] = true
				}
			}
		}
		var syms []string
		for sym := range bySym {
			syms = append(syms, sym)
		}
		sort.Strings(syms)
		for _, sym := range syms {
			id := add(a.closure(bySym[sym]))
			if d.Trans[i] == nil {
				d.Trans[i] = map[string]int{}
			}
			d.Trans[i][sym] = id
		}
	}
	d.States = len(sets)
	return refineByInSym(d)
}

// refineByInSym splits states by the symbol that enters them, so that a state determines the kind of its node.
func refineByInSym(d *ruleDFA) *ruleDFA {
	r := &ruleDFA{Acc: map[int]bool{}, Trans: map[int]map[string]int{}, InSym: map[int]string{}}
	ids := map[string]int{}
	type pair struct {
		q   int
		sym string
	}
	var list []pair
	add := func(q int, sym string) int {
		k := fmt.Sprintf("%d/%s", q, sym)
		if id, ok := ids[k]; ok {
			return id
		}
		id := len(list)
		ids[k] = id
		list = append(list, pair{q, sym})
		if d.Acc[q] {
			r.Acc[id] = true
		}
		r.InSym[id] = sym
		return id
	}
	r.Init = add(d.Init, "")
	for i := 0; i < len(list); i++ {
		q := list[i].q
		var syms []string
		for sym := range d.Trans[q] {
			syms = append(syms, sym)
		}
		sort.Strings(syms)
		for _, sym := range syms {
			id := add(d.Trans[q][sym], sym)
			if r.Trans[i] == nil {
				r.Trans[i] = map[string]int{}
			}
			r.Trans[i][sym] = id
		}
	}
	r.States = len(list)
	return r
}

// ---- the theory ----

type pegTheory struct {
	Defs       string // define-fun text for peg.delta / peg.init / peg.acc / peg.owner
	RuleVal    map[string]int64
	States     int
	Rules      int
	CapMinPre  int // minimum number of characters consumed before any capture
	RuleListOK bool
	Summary    map[string]interface{}
}

func (g *pegGrammar) extra() {}

func buildPegTheory(prog *Program, repo string) (*pegTheory, error) {
	src, err := os.ReadFile(filepath.Join(repo, "parser", "thrift.peg"))
	if err != nil {
		return nil, err
	}
	g, err := parsePEG(string(src))
	if err != nil {
		return nil, err
	}
	minLen := g.minLens()
	// rule constants from the generated Go code
	pkg := prog.Pkgs[modulePath+"/parser"]
	if pkg == nil {
		return nil, fmt.Errorf("peg: package parser not loaded")
	}
	th := &pegTheory{RuleVal: map[string]int64{}, Summary: map[string]interface{}{}}
	th.RuleListOK = true
	for i, r := range append(append([]string{}, g.Order...), "PegText") {
		c, ok := pkg.Types.Scope().Lookup("rule" + r).(*types.Const)
		if !ok {
			return nil, fmt.Errorf("peg: constant rule%s not found in thrift.peg.go", r)
		}
		v, _ := constant.Int64Val(c.Val())
		th.RuleVal[r] = v
		if v != int64(i+1) {
			th.RuleListOK = false
		}
	}
	// child languages
	var caps []*pegExpr
	langs := map[string]*symRe{}
	for _, r := range g.Order {
		langs[r] = g.childLang(g.Rules[r], minLen, &caps)
	}
	// PegText: union over all captures (captures nested in captures are collected as well)
	var capLangs []*symRe
	for i := 0; i < len(caps); i++ {
		capLangs = append(capLangs, g.childLang(caps[i], minLen, &caps))
	}
	langs["PegText"] = &symRe{K: "alt", Sub: capLangs}
	names := append(append([]string{}, g.Order...), "PegText")
	base := map[string]int{}
	dfas := map[string]*ruleDFA{}
	next := 1 // 0 = dead
	// nc(e): e can match a non-empty string without producing any child node. A node exists only for a non-empty
	// span, so a rule whose text can only be consumed through child nodes never has an empty child sequence.
	var canEmptyNoChild, nc func(e *pegExpr) bool
	canEmptyNoChild = func(e *pegExpr) bool { return g.ml(e) == 0 }
	nc = func(e *pegExpr) bool {
		switch e.K {
		case "lit":
			return e.N > 0
		case "class", "dot":
			return true
		case "ref", "cap", "not", "and":
			return false
		case "alt":
			for _, x := range e.Sub {
				if nc(x) {
					return true
				}
			}
			return false
		case "star", "plus", "opt":
			return nc(e.Sub[0])
		case "seq":
			any := false
			for _, x := range e.Sub {
				if nc(x) {
					any = true
				} else if !canEmptyNoChild(x) {
					return false
				}
			}
			return any
		}
		return false
	}
	for _, r := range names {
		d := toDFA(langs[r])
		if r != "PegText" && !nc(g.Rules[r]) {
			delete(d.Acc, d.Init)
		}
		dfas[r] = d
		base[r] = next
		next += d.States
	}
	th.States = next
	th.Rules = len(names)
	var delta, initf, acc, owner strings.Builder
	// delta: balanced decision tree on the state, a short chain on the symbol at each leaf
	type leaf struct {
		s    int
		body string
	}
	var leaves []leaf
	for _, r := range names {
		d := dfas[r]
		for st := 0; st < d.States; st++ {
			var syms []string
			for sym := range d.Trans[st] {
				syms = append(syms, sym)
			}
			sort.Strings(syms)
			body := "0"
			for i := len(syms) - 1; i >= 0; i-- {
				body = fmt.Sprintf("(ite (= r %d) %d %s)", th.RuleVal[syms[i]], base[r]+d.Trans[st][syms[i]], body)
			}
			leaves = append(leaves, leaf{base[r] + st, body})
		}
	}
	sort.Slice(leaves, func(i, j int) bool { return leaves[i].s < leaves[j].s })
	var tree func(lo, hi int) string
	tree = func(lo, hi int) string {
		if lo == hi {
			return fmt.Sprintf("(ite (= s %d) %s 0)", leaves[lo].s, leaves[lo].body)
		}
		mid := (lo + hi) / 2
		return fmt.Sprintf("(ite (<= s %d) %s %s)", leaves[mid].s, tree(lo, mid), tree(mid+1, hi))
	}
	delta.WriteString("(define-fun peg.delta ((s Int) (r Int)) Int " + tree(0, len(leaves)-1) + ")\n")
	initf.WriteString("(define-fun peg.init ((r Int)) Int ")
	for _, r := range names {
		initf.WriteString(fmt.Sprintf("(ite (= r %d) %d ", th.RuleVal[r], base[r]+dfas[r].Init))
	}
	initf.WriteString("0" + strings.Repeat(")", len(names)) + ")\n")
	acc.WriteString("(define-fun peg.acc ((s Int)) Bool (or false")
	owner.WriteString("(define-fun peg.owner ((s Int)) Int ")
	for _, r := range names {
		d := dfas[r]
		for st := 0; st < d.States; st++ {
			if d.Acc[st] {
				acc.WriteString(fmt.Sprintf(" (= s %d)", base[r]+st))
			}
		}
		owner.WriteString(fmt.Sprintf("(ite (and (<= %d s) (< s %d)) %d ", base[r], base[r]+d.States, th.RuleVal[r]))
	}
	acc.WriteString("))\n")
	owner.WriteString("0" + strings.Repeat(")", len(names)) + ")\n")
	// peg.only(s, r): state s is not accepting and its only outgoing symbol is r
	var only strings.Builder
	only.WriteString("(define-fun peg.only ((s Int) (r Int)) Bool (or false")
	for _, r := range names {
		d := dfas[r]
		for st := 0; st < d.States; st++ {
			if !d.Acc[st] && len(d.Trans[st]) == 1 {
				for sym := range d.Trans[st] {
					only.WriteString(fmt.Sprintf(" (and (= s %d) (= r %d))", base[r]+st, th.RuleVal[sym]))
				}
			}
		}
	}
	only.WriteString("))\n")
	var insym strings.Builder
	insym.WriteString("(define-fun peg.insym ((s Int)) Int ")
	cnt := 0
	for _, r := range names {
		d := dfas[r]
		for st := 0; st < d.States; st++ {
			if d.InSym[st] != "" {
				insym.WriteString(fmt.Sprintf("(ite (= s %d) %d ", base[r]+st, th.RuleVal[d.InSym[st]]))
				cnt++
			}
		}
	}
	insym.WriteString("0" + strings.Repeat(")", cnt) + ")\n")
	only.WriteString(insym.String())
	th.Defs = delta.String() + initf.String() + acc.String() + owner.String() + only.String()
	pegDefs = th.Defs
	// minimum prefix before any capture
	minPre := map[string]int{}
	for _, r := range g.Order {
		minPre[r] = pegInf
	}
	minPre[g.Order[0]] = 0
	capMin := pegInf
	var walk func(e *pegExpr, pre int, rule string, record bool)
	walk = func(e *pegExpr, pre int, rule string, record bool) {
		switch e.K {
		case "seq":
			p := pre
			for _, x := range e.Sub {
				walk(x, p, rule, record)
				v := g.ml(x)
				if v >= pegInf {
					return
				}
				p += v
			}
		case "alt":
			for _, x := range e.Sub {
				walk(x, pre, rule, record)
			}
		case "star", "plus", "opt":
			walk(e.Sub[0], pre, rule, record)
		case "ref":
			if pre < minPre[e.Name] {
				minPre[e.Name] = pre
			}
		case "cap":
			if record && pre < capMin {
				capMin = pre
			}
			walk(e.Sub[0], pre, rule, record)
		}
	}
	for iter := 0; iter < len(g.Order)+2; iter++ {
		for _, r := range g.Order {
			if minPre[r] < pegInf {
				walk(g.Rules[r], minPre[r], r, false)
			}
		}
	}
	for _, r := range g.Order {
		if minPre[r] < pegInf {
			walk(g.Rules[r], minPre[r], r, true)
		}
	}
	th.CapMinPre = capMin
	th.Summary["rules"] = len(g.Order)
	th.Summary["dfa_states"] = th.States
	th.Summary["nullable_rules"] = func() []string {
		var out []string
		for _, r := range g.Order {
			if minLen[r] == 0 {
				out = append(out, r)
			}
		}
		return out
	}()
	th.Summary["min_chars_before_any_capture"] = capMin
	th.Summary["rule_constants_match_grammar_order"] = th.RuleListOK
	return th, nil
}

// pegAxioms: the shape theory instantiated on the heap model of node32 (fields up, next, token32{pegRule,begin,end}).
func (env *SpecEnv) pegAxioms(bufLen *Term) *Term {
	vc := env.vc
	prog := vc.prog
	if prog.peg == nil {
		th, err := buildPegTheory(prog, prog.Repo)
		if err != nil {
			panic(specFail("peg shape theory: " + err.Error()))
		}
		prog.peg = th
		prog.Assumed["the generated matcher parser/thrift.peg.go implements parser/thrift.peg (rule constants checked against the grammar's rule order) and tokens32.AST() nests tokens by range after dropping empty ones; child-sequence automata are derived from thrift.peg on every run"] = true
	}
	pkg := prog.Pkgs[modulePath+"/parser"]
	nodeT := pkg.Types.Scope().Lookup("node32").Type()
	st, _ := isStructType(nodeT)
	var fUp, fNext, fTok *types.Var
	for i := 0; i < st.NumFields(); i++ {
		switch st.Field(i).Name() {
		case "up":
			fUp = st.Field(i)
		case "next":
			fNext = st.Field(i)
		case "token32":
			fTok = st.Field(i)
		}
	}
	_, upA := vc.fieldArr(env.st, nodeT, fUp)
	_, nextA := vc.fieldArr(env.st, nodeT, fNext)
	_, tokA := vc.fieldArr(env.st, nodeT, fTok)
	n := BoundVar("pn", SInt)
	rule := func(x *Term) *Term { return Sel(Select(tokA, x), "pegRule") }
	begin := func(x *Term) *Term { return Sel(Select(tokA, x), "begin") }
	end := func(x *Term) *Term { return Sel(Select(tokA, x), "end") }
	stf := func(x *Term) *Term { return App("peg.st", SInt, x) }
	delta := func(a, b *Term) *Term { return App("peg.delta", SInt, a, b) }
	initf := func(a *Term) *Term { return App("peg.init", SInt, a) }
	accf := func(a *Term) *Term { return App("peg.acc", SBool, a) }
	guard := And(Gt(n, IntLit(0)), Eq(rtypeOf(n), typeID(nodeT)))
	up, next := Select(upA, n), Select(nextA, n)
	pegText := IntLit(prog.peg.RuleVal["PegText"])
	var ax []*Term
	ax = append(ax, Forall([]*Term{n}, Implies(And(guard, Not(Eq(up, IntLit(0)))), And(Eq(stf(up), delta(initf(rule(n)), rule(up))), Not(Eq(stf(up), IntLit(0))), Eq(rtypeOf(up), typeID(nodeT)))), []*Term{up}))
	ax = append(ax, Forall([]*Term{n}, Implies(And(guard, Eq(up, IntLit(0))), accf(initf(rule(n)))), []*Term{up}))
	ax = append(ax, Forall([]*Term{n}, Implies(And(guard, Not(Eq(next, IntLit(0)))), And(Eq(stf(next), delta(stf(n), rule(next))), Not(Eq(stf(next), IntLit(0))), Eq(rtypeOf(next), typeID(nodeT)))), []*Term{next}))
	ax = append(ax, Forall([]*Term{n}, Implies(And(guard, Eq(next, IntLit(0))), accf(stf(n))), []*Term{next}))
	ax = append(ax, Forall([]*Term{n}, Implies(And(guard, Not(Eq(App("peg.insym", SInt, stf(n)), IntLit(0)))), Eq(rule(n), App("peg.insym", SInt, stf(n)))), []*Term{stf(n)}))
	rng := And(Le(IntLit(0), begin(n)), Lt(begin(n), end(n)), Le(end(n), bufLen), Lt(rule(n), IntLit(int64(prog.peg.Rules+1))), Le(IntLit(1), rule(n)))
	if prog.peg.CapMinPre >= 1 {
		rng = And(rng, Implies(Eq(rule(n), pegText), Ge(begin(n), IntLit(1))))
	}
	ax = append(ax, Forall([]*Term{n}, Implies(guard, rng), []*Term{Select(tokA, n)}))
	return And(ax...)
}
