package main

// Loops: cut at the head with invariants; modified-set analysis.

import (
	"fmt"
	"go/ast"
	"go/token"
	"go/types"
	"sort"
	"strings"
)

// effects of a code region
type Effects struct {
	extraTypes []*Term // type tags allocated by contracted callees
	vars       map[types.Object]bool
	arrays     map[string]*arrEffect // heap array name -> effect
	all        bool                  // unknown call: everything
	why        []string
	// ghost state the region may change (scalar ghosts are not heap arrays: they need their own havoc at loop heads)
	calls   map[string]bool // callee expression texts of every call in the region (transitively through inlined callees)
	anyCall bool
	spawns  bool // go statement
	syncs   bool // channel operation or select
}

type arrEffect struct {
	sort      *Sort
	bases     map[types.Object]bool // written only at these base variables (pointer/map-valued locals)
	whole     bool
	freshOnly bool // additionally written on objects allocated after the region started
	isMap     bool
	mt        *types.Map
	fld       *types.Var
	structT   types.Type
	boxT      types.Type
}

func newEffects() *Effects {
	return &Effects{vars: map[types.Object]bool{}, arrays: map[string]*arrEffect{}, calls: map[string]bool{}}
}

func (e *Effects) arr(name string) *arrEffect {
	a := e.arrays[name]
	if a == nil {
		a = &arrEffect{bases: map[types.Object]bool{}}
		e.arrays[name] = a
	}
	return a
}

func (vc *VC) effectsOf(nodes []ast.Node, info *types.Info, depth int) *Effects {
	eff := newEffects()
	for _, n := range nodes {
		if n != nil {
			vc.collectEffects(eff, n, info, depth)
		}
	}
	// base variables declared inside the region whose only definition is an allocation denote fresh objects
	fresh := map[types.Object]bool{}
	isFresh := func(b types.Object) bool {
		if v, ok := fresh[b]; ok {
			return v
		}
		defs, allocs := 0, 0
		for _, n := range nodes {
			if n == nil {
				continue
			}
			ast.Inspect(n, func(n ast.Node) bool {
				switch x := n.(type) {
				case *ast.AssignStmt:
					for i, l := range x.Lhs {
						id, ok := l.(*ast.Ident)
						if !ok || info.ObjectOf(id) != b {
							continue
						}
						defs++
						if len(x.Rhs) == len(x.Lhs) && x.Tok == token.DEFINE && isAllocExpr(x.Rhs[i], info) {
							allocs++
						}
					}
				case *ast.ValueSpec:
					for i, nm := range x.Names {
						if info.Defs[nm] == b {
							defs++
							if i < len(x.Values) && isAllocExpr(x.Values[i], info) {
								allocs++
							}
						}
					}
				case *ast.RangeStmt:
					for _, e := range []ast.Expr{x.Key, x.Value} {
						if id, ok := e.(*ast.Ident); ok && info.ObjectOf(id) == b {
							defs += 2
						}
					}
				case *ast.UnaryExpr:
					if x.Op == token.AND {
						if id, ok := ast.Unparen(x.X).(*ast.Ident); ok && info.ObjectOf(id) == b {
							defs += 2
						}
					}
				}
				return true
			})
		}
		fresh[b] = defs == 1 && allocs == 1
		return fresh[b]
	}
	for _, a := range eff.arrays {
		for b := range a.bases {
			if isFresh(b) {
				delete(a.bases, b)
				a.freshOnly = true
			}
		}
	}
	return eff
}

func isAllocExpr(e ast.Expr, info *types.Info) bool {
	switch x := ast.Unparen(e).(type) {
	case *ast.CallExpr:
		if id, ok := x.Fun.(*ast.Ident); ok {
			if b, ok := info.ObjectOf(id).(*types.Builtin); ok && (b.Name() == "make" || b.Name() == "new") {
				return true
			}
		}
	case *ast.UnaryExpr:
		if x.Op == token.AND {
			_, ok := ast.Unparen(x.X).(*ast.CompositeLit)
			return ok
		}
	case *ast.CompositeLit:
		_, ok := info.TypeOf(x).Underlying().(*types.Map)
		return ok
	}
	return false
}

func baseObjOf(e ast.Expr, info *types.Info) types.Object {
	if id, ok := ast.Unparen(e).(*ast.Ident); ok {
		if v, ok := info.ObjectOf(id).(*types.Var); ok && v.Pkg() != nil && v.Parent() != v.Pkg().Scope() {
			return v
		}
	}
	return nil
}

func (vc *VC) lhsEffect(eff *Effects, lhs ast.Expr, info *types.Info) {
	switch x := ast.Unparen(lhs).(type) {
	case *ast.Ident:
		if x.Name == "_" {
			return
		}
		o := info.ObjectOf(x)
		if v, ok := o.(*types.Var); ok {
			if v.Pkg() != nil && v.Parent() == v.Pkg().Scope() {
				a := eff.arr(vc.globalName(v))
				a.whole = true
				a.sort = sortOf(v.Type())
				return
			}
			eff.vars[o] = true
			if vc.boxed[o] {
				vc.ptrTargetEffect(eff, v.Type(), nil)
			}
		}
	case *ast.SelectorExpr:
		sel, ok := info.Selections[x]
		if !ok {
			if v, ok := info.ObjectOf(x.Sel).(*types.Var); ok {
				a := eff.arr(vc.globalName(v))
				a.whole = true
				a.sort = sortOf(v.Type())
			}
			return
		}
		// find last pointer step
		ct := info.TypeOf(x.X)
		path := sel.Index()
		type stp struct {
			t types.Type
			f *types.Var
		}
		var steps []stp
		for _, idx := range path {
			var st *types.Struct
			if p, ok := ct.Underlying().(*types.Pointer); ok {
				st, _ = isStructType(p.Elem())
			} else {
				st, _ = isStructType(ct)
			}
			if st == nil {
				eff.all = true
				return
			}
			f := st.Field(idx)
			steps = append(steps, stp{ct, f})
			ct = f.Type()
		}
		lastPtr := -1
		for i, st := range steps {
			if _, ok := st.t.Underlying().(*types.Pointer); ok {
				lastPtr = i
			}
		}
		if lastPtr == -1 {
			vc.lhsEffect(eff, x.X, info)
			return
		}
		p := steps[lastPtr].t.Underlying().(*types.Pointer)
		name := fieldArrName(p.Elem(), steps[lastPtr].f)
		a := eff.arr(name)
		a.sort = ArraySort(SInt, sortOf(steps[lastPtr].f.Type()))
		a.fld = steps[lastPtr].f
		a.structT = p.Elem()
		if lastPtr == 0 {
			if b := baseObjOf(x.X, info); b != nil {
				a.bases[b] = true
			} else {
				a.whole = true
			}
		} else {
			a.whole = true
		}
	case *ast.IndexExpr:
		bt := info.TypeOf(x.X)
		switch u := bt.Underlying().(type) {
		case *types.Map:
			vc.mapEffect(eff, u, baseObjOf(x.X, info))
		default:
			vc.lhsEffect(eff, x.X, info)
		}
	case *ast.StarExpr:
		pt, ok := info.TypeOf(x.X).Underlying().(*types.Pointer)
		if !ok {
			eff.all = true
			return
		}
		vc.ptrTargetEffect(eff, pt.Elem(), baseObjOf(x.X, info))
	default:
		eff.all = true
		eff.why = append(eff.why, "unsupported assignment target")
	}
}

func (vc *VC) mapEffect(eff *Effects, mt *types.Map, base types.Object) {
	k := mapKeyName(mt)
	ks, vs := sortOf(mt.Key()), sortOf(mt.Elem())
	for _, nm := range []struct {
		n string
		s *Sort
	}{{"MD." + k, ArraySort(SInt, ArraySort(ks, SBool))}, {"MV." + k, ArraySort(SInt, ArraySort(ks, vs))}, {"MC." + k, ArraySort(SInt, SInt)}} {
		a := eff.arr(nm.n)
		a.sort = nm.s
		a.isMap = true
		a.mt = mt
		if base != nil {
			a.bases[base] = true
		} else {
			a.whole = true
		}
	}
}

func (vc *VC) ptrTargetEffect(eff *Effects, elem types.Type, base types.Object) {
	if st, ok := isStructType(elem); ok {
		for i := 0; i < st.NumFields(); i++ {
			a := eff.arr(fieldArrName(elem, st.Field(i)))
			a.sort = ArraySort(SInt, sortOf(st.Field(i).Type()))
			a.fld = st.Field(i)
			a.structT = elem
			if base != nil {
				a.bases[base] = true
			} else {
				a.whole = true
			}
		}
		return
	}
	a := eff.arr(boxArrName(elem))
	a.sort = ArraySort(SInt, sortOf(elem))
	a.boxT = elem
	if base != nil {
		a.bases[base] = true
	} else {
		a.whole = true
	}
}

// allocEffect: a fresh object of type elem is initialised (writes only on fresh objects).
func (vc *VC) allocEffect(eff *Effects, elem types.Type) {
	if st, ok := isStructType(elem); ok {
		for i := 0; i < st.NumFields(); i++ {
			a := eff.arr(fieldArrName(elem, st.Field(i)))
			a.sort = ArraySort(SInt, sortOf(st.Field(i).Type()))
			a.fld = st.Field(i)
			a.structT = elem
			a.freshOnly = true
		}
		return
	}
	a := eff.arr(boxArrName(elem))
	a.sort = ArraySort(SInt, sortOf(elem))
	a.boxT = elem
	a.freshOnly = true
}

func (vc *VC) mapAllocEffect(eff *Effects, mt *types.Map) {
	k := mapKeyName(mt)
	ks, vs := sortOf(mt.Key()), sortOf(mt.Elem())
	for _, nm := range []struct {
		n string
		s *Sort
	}{{"MD." + k, ArraySort(SInt, ArraySort(ks, SBool))}, {"MV." + k, ArraySort(SInt, ArraySort(ks, vs))}, {"MC." + k, ArraySort(SInt, SInt)}} {
		a := eff.arr(nm.n)
		a.sort = nm.s
		a.isMap = true
		a.mt = mt
		a.freshOnly = true
	}
}

func (vc *VC) collectEffects(eff *Effects, n ast.Node, info *types.Info, depth int) {
	ast.Inspect(n, func(n ast.Node) bool {
		switch x := n.(type) {
		case *ast.AssignStmt:
			for _, l := range x.Lhs {
				vc.lhsEffect(eff, l, info)
			}
		case *ast.IncDecStmt:
			vc.lhsEffect(eff, x.X, info)
		case *ast.RangeStmt:
			if x.Key != nil {
				vc.lhsEffect(eff, x.Key, info)
			}
			if x.Value != nil {
				vc.lhsEffect(eff, x.Value, info)
			}
		case *ast.DeclStmt:
			if gd, ok := x.Decl.(*ast.GenDecl); ok && gd.Tok == token.VAR {
				for _, sp := range gd.Specs {
					for _, nm := range sp.(*ast.ValueSpec).Names {
						if o := info.Defs[nm]; o != nil {
							eff.vars[o] = true
						}
					}
				}
			}
		case *ast.UnaryExpr:
			if x.Op == token.AND {
				// &x{...} allocation: fields of the new object are written (fresh object; whole array must be havocked)
				if cl, ok := ast.Unparen(x.X).(*ast.CompositeLit); ok {
					if t := info.TypeOf(cl); t != nil {
						vc.allocEffect(eff, t)
					}
				}
			}
		case *ast.CompositeLit:
			if t := info.TypeOf(x); t != nil {
				if mt, ok := t.Underlying().(*types.Map); ok {
					vc.mapAllocEffect(eff, mt)
				}
				// elided &T{} inside slice/map literals of pointer element type
				switch u := t.Underlying().(type) {
				case *types.Slice:
					if p, ok := u.Elem().Underlying().(*types.Pointer); ok {
						vc.allocEffect(eff, p.Elem())
					}
				case *types.Map:
					if p, ok := u.Elem().Underlying().(*types.Pointer); ok {
						vc.allocEffect(eff, p.Elem())
					}
				}
			}
		case *ast.CallExpr:
			vc.callEffects(eff, x, info, depth)
		case *ast.FuncLit:
			// body effects are accounted for where the literal is called (closures) - conservatively include here too
			return true
		case *ast.GoStmt:
			eff.all = true
			eff.spawns = true
		case *ast.SelectStmt, *ast.SendStmt:
			eff.syncs = true
		}
		if u, ok := n.(*ast.UnaryExpr); ok && u.Op == token.ARROW {
			eff.syncs = true
		}
		return true
	})
}

func (vc *VC) callEffects(eff *Effects, call *ast.CallExpr, info *types.Info, depth int) {
	if tv, ok := info.Types[call.Fun]; ok && tv.IsType() {
		return
	}
	if id, ok := ast.Unparen(call.Fun).(*ast.Ident); ok {
		if _, isB := info.ObjectOf(id).(*types.Builtin); !isB {
			eff.calls[exprStr(call.Fun)], eff.anyCall = true, true
		}
	} else {
		eff.calls[exprStr(call.Fun)], eff.anyCall = true, true
	}
	fun := ast.Unparen(call.Fun)
	var fn *types.Func
	switch f := fun.(type) {
	case *ast.Ident:
		switch o := info.ObjectOf(f).(type) {
		case *types.Builtin:
			switch o.Name() {
			case "delete":
				if mt, ok := info.TypeOf(call.Args[0]).Underlying().(*types.Map); ok {
					vc.mapEffect(eff, mt, baseObjOf(call.Args[0], info))
				}
			case "make":
				if mt, ok := info.TypeOf(call.Args[0]).Underlying().(*types.Map); ok {
					vc.mapAllocEffect(eff, mt)
				}
			case "new":
				vc.allocEffect(eff, info.TypeOf(call.Args[0]))
			case "copy":
				// copy into a slice expression (a view) changes no named l-value under value-semantics slices
				switch ast.Unparen(call.Args[0]).(type) {
				case *ast.SliceExpr:
				default:
					vc.lhsEffect(eff, call.Args[0], info)
				}
			}
			return
		case *types.Func:
			fn = o
		case *types.Var:
			if lit, ok := vc.closures[o]; ok {
				if depth < 6 {
					vc.collectEffects(eff, lit.Body, info, depth+1)
				}
				return
			}
			if lit := vc.globalFuncLit(o, info); lit != nil {
				if depth < 6 {
					vc.collectEffects(eff, lit.Body, info, depth+1)
				}
				return
			}
			eff.all = true
			eff.why = append(eff.why, "call of function variable "+f.Name)
			return
		}
	case *ast.FuncLit:
		return
	case *ast.SelectorExpr:
		if sel, ok := info.Selections[f]; ok {
			if sel.Kind() == types.MethodVal {
				m := sel.Obj().(*types.Func)
				if _, isIface := sel.Recv().Underlying().(*types.Interface); isIface {
					key := ""
					if m.Pkg() != nil {
						key = m.Pkg().Path() + "." + ifaceNameOf(m) + "." + m.Name()
					}
					if m.Name() == "Error" {
						return
					}
					if spec, ok := vc.prog.Specs[key]; ok {
						vc.specEffects(eff, spec, m, key)
						return
					}
					eff.all = true
					eff.why = append(eff.why, "interface call "+exprStr(f))
					return
				}
				fn = m
			} else if sel.Kind() == types.FieldVal {
				key := vc.fieldFuncKey(sel, sel.Obj().(*types.Var))
				if spec, ok := vc.prog.Specs[key]; ok {
					fsig, _ := sel.Obj().Type().Underlying().(*types.Signature)
					vc.specEffectsSig(eff, spec, fsig, key)
					return
				}
				eff.all = true
				eff.why = append(eff.why, "call through field "+exprStr(f))
				return
			}
		} else if o, ok := info.ObjectOf(f.Sel).(*types.Func); ok {
			fn = o
		}
	}
	if fn == nil {
		eff.all = true
		eff.why = append(eff.why, "dynamic call "+exprStr(call.Fun))
		return
	}
	key := funcKey(fn)
	if spec, ok := vc.prog.Specs[key]; ok && !spec.Inline {
		vc.specEffects(eff, spec, fn, key)
		if fi := vc.prog.ByObj[fn]; fi != nil && !spec.Trusted && !spec.ModAll {
			fp := vc.footprint(fi)
			eff.extraTypes = append(eff.extraTypes, fp.types...)
			if fp.all {
				eff.all = true
			}
			for n, srt := range fp.arrays {
				a := eff.arr(n)
				if a.sort == nil {
					a.sort = srt
				}
				a.freshOnly = true
			}
		}
		return
	}
	if _, ok := stdModels[key]; ok {
		return
	}
	fi := vc.prog.ByObj[fn]
	if fi != nil && fi.Decl != nil && fi.Decl.Body != nil && depth < 6 && strings.HasPrefix(fi.Pkg.PkgPath, modulePath) {
		// would be inlined: analyse its body
		loopFree := true
		ast.Inspect(fi.Decl.Body, func(n ast.Node) bool {
			switch n.(type) {
			case *ast.ForStmt, *ast.RangeStmt, *ast.GoStmt, *ast.SelectStmt, *ast.DeferStmt:
				loopFree = false
			}
			return loopFree
		})
		if loopFree {
			vc.analyzeBody(fi.Decl.Body, fi.Pkg.TypesInfo, fi.Decl)
			sub := vc.effectsOf([]ast.Node{fi.Decl.Body}, fi.Pkg.TypesInfo, depth+1)
			if sub.all {
				eff.all = true
				eff.why = append(eff.why, sub.why...)
			}
			for c := range sub.calls {
				eff.calls[c] = true
			}
			eff.spawns, eff.syncs = eff.spawns || sub.spawns, eff.syncs || sub.syncs
			for name, a := range sub.arrays {
				b := eff.arr(name)
				*b = arrEffect{sort: a.sort, whole: true, isMap: a.isMap, mt: a.mt, fld: a.fld, structT: a.structT, boxT: a.boxT, bases: map[types.Object]bool{}}
			}
			return
		}
	}
	if isPureStd(key) {
		return
	}
	eff.all = true
	eff.why = append(eff.why, "uncontracted call "+shortKey(key))
}

// specEffects maps a contract's modifies clause to array effects (whole arrays: conservative).
func (vc *VC) specEffects(eff *Effects, spec *FuncSpec, fn *types.Func, key string) {
	var sig *types.Signature
	if fn != nil {
		sig, _ = fn.Type().(*types.Signature)
	}
	vc.specEffectsSig(eff, spec, sig, key)
}

func (vc *VC) specEffectsSig(eff *Effects, spec *FuncSpec, sig *types.Signature, key string) {
	if spec.ModAll {
		eff.all = true
		eff.why = append(eff.why, "modifies * of "+shortKey(key))
		return
	}
	if len(spec.Modifies) == 0 {
		return
	}
	fi := vc.prog.Funcs[key]
	env := &SpecEnv{vc: vc, vars: map[string]TV{}, objVals: map[types.Object]*Term{}, what: "modifies of " + key}
	if fi != nil {
		env.pkg = fi.Pkg
		if fi.Decl != nil {
			env.scope = fi.Pkg.TypesInfo.Scopes[fi.Decl.Type]
			env.pos = fi.Decl.Body.Lbrace
		}
	} else {
		env.pkg = vc.pkgForKey(key)
	}
	if sig != nil {
		if sig.Recv() != nil && sig.Recv().Name() != "" {
			env.vars[sig.Recv().Name()] = TV{nil, sig.Recv().Type()}
		}
		for i := 0; i < sig.Params().Len(); i++ {
			if p := sig.Params().At(i); p.Name() != "" {
				env.vars[p.Name()] = TV{nil, p.Type()}
			}
		}
	}
	for _, m := range spec.Modifies {
		if isStreamMod(m) {
			for _, n := range streamArrs {
				a := eff.arr(n)
				a.sort = ArraySort(SInt, SInt)
				a.whole = true
			}
			continue
		}
		if m.K == "call" && m.X.K == "id" && m.X.Name == "box" && len(m.Args) == 1 {
			if tn := env.typeNameOf(m.Args[0]); tn != nil {
				vc.ptrTargetEffect(eff, tn.Type(), nil)
				continue
			}
			eff.all = true
			continue
		}
		if m.K == "call" && m.X.K == "id" && m.X.Name == "contents" && len(m.Args) == 1 {
			m = m.Args[0]
			if t := env.staticType(m); t != nil {
				if mt, ok := t.Underlying().(*types.Map); ok {
					vc.mapEffect(eff, mt, nil)
					continue
				}
			}
			eff.all = true
			continue
		}
		t := env.staticType(m)
		switch m.K {
		case "sel":
			// x.f or T.f
			var bt types.Type
			if tn := env.typeNameOf(m.X); tn != nil {
				bt = tn.Type()
			} else {
				bt = env.staticType(m.X)
			}
			if bt == nil {
				eff.all = true
				continue
			}
			var elem types.Type = bt
			if p, ok := bt.Underlying().(*types.Pointer); ok {
				elem = p.Elem()
			}
			st, ok := isStructType(elem)
			if !ok {
				eff.all = true
				continue
			}
			for i := 0; i < st.NumFields(); i++ {
				if st.Field(i).Name() == m.Name {
					a := eff.arr(fieldArrName(elem, st.Field(i)))
					a.sort = ArraySort(SInt, sortOf(st.Field(i).Type()))
					a.whole = true
					a.fld = st.Field(i)
					a.structT = elem
				}
			}
		case "un":
			bt := env.staticType(m.X)
			if bt == nil {
				eff.all = true
				continue
			}
			if p, ok := bt.Underlying().(*types.Pointer); ok {
				vc.ptrTargetEffect(eff, p.Elem(), nil)
			} else {
				eff.all = true
			}
		default:
			if t != nil {
				if mt, ok := t.Underlying().(*types.Map); ok {
					vc.mapEffect(eff, mt, nil)
					continue
				}
			}
			// global
			if m.K == "id" {
				if o := env.lookupObj(m.Name); o != nil {
					if v, ok := o.(*types.Var); ok && v.Pkg() != nil && v.Parent() == v.Pkg().Scope() {
						a := eff.arr(vc.globalName(v))
						a.whole = true
						a.sort = sortOf(v.Type())
						continue
					}
				}
			}
			eff.all = true
		}
	}
}

// staticType computes the Go type of a spec lvalue expression without a state.
func (env *SpecEnv) staticType(e *SExpr) types.Type {
	switch e.K {
	case "id":
		if tv, ok := env.vars[e.Name]; ok {
			return tv.Ty
		}
		if o := env.lookupObj(e.Name); o != nil {
			return o.Type()
		}
	case "sel":
		bt := env.staticType(e.X)
		if bt == nil {
			return nil
		}
		o, _ := lookupFieldAnyPkg(bt, e.Name)
		if o != nil {
			return o.Type()
		}
	case "idx":
		bt := env.staticType(e.X)
		if bt == nil {
			return nil
		}
		switch u := bt.Underlying().(type) {
		case *types.Map:
			return u.Elem()
		case *types.Slice:
			return u.Elem()
		case *types.Array:
			return u.Elem()
		}
	case "un":
		bt := env.staticType(e.X)
		if bt != nil {
			if p, ok := bt.Underlying().(*types.Pointer); ok {
				return p.Elem()
			}
		}
	}
	return nil
}

// havocEffects forgets modified variables and heap arrays.
func (vc *VC) havocEffects(s *State, eff *Effects) {
	vc.havocGhost(s, eff)
	if eff.all {
		vc.prog.Uncontracted[fmt.Sprintf("loop in %s havocs the whole heap: %v", shortKey(vc.fn.Key), eff.why)] = true
		vc.havocHeap(s, "loop")
		// havocHeap keeps the ghost arrays (an opaque callee cannot touch them); a loop body can
		for name := range eff.arrays {
			if strings.HasPrefix(name, "GH.") {
				vc.havocArr(s, name)
			}
		}
	}
	var objs []types.Object
	for o := range eff.vars {
		objs = append(objs, o)
	}
	sort.Slice(objs, func(i, j int) bool { return objs[i].Pos() < objs[j].Pos() })
	for _, o := range objs {
		v, ok := o.(*types.Var)
		if !ok {
			continue
		}
		if _, has := s.env[o]; !has {
			continue // declared inside the loop
		}
		if vc.boxed[o] {
			continue // contents live in the heap; handled by array effects
		}
		s.env[o] = vc.loadedDeep(s, v.Type(), Fresh(v.Name(), sortOf(v.Type())), v.Name())
	}
	if eff.all {
		return
	}
	var names []string
	for n := range eff.arrays {
		names = append(names, n)
	}
	sort.Strings(names)
	for _, name := range names {
		a := eff.arrays[name]
		cur := vc.heapArr(s, name, a.sort)
		if !a.whole && a.freshOnly && a.sort.Key != nil {
			ok := true
			for b := range a.bases {
				if eff.vars[b] || vc.boxed[b] {
					ok = false
				}
				if _, has := s.env[b]; !has {
					ok = false
				}
			}
			if ok {
				nw := Fresh(name+".lp", a.sort)
				r := BoundVar("fr", SInt)
				conds := []*Term{Le(IntLit(0), r), Lt(r, s.alloc)}
				for b := range a.bases {
					conds = append(conds, Not(Eq(r, s.env[b])))
				}
				s.assume(Forall([]*Term{r}, Implies(And(conds...), Eq(Select(nw, r), Select(cur, r))), []*Term{Select(nw, r)}))
				s.heap[name] = nw
				continue
			}
			s.heap[name] = Fresh(name+".lp", a.sort)
			continue
		}
		precise := !a.whole && len(a.bases) > 0 && a.sort.Key != nil
		if precise {
			for b := range a.bases {
				if eff.vars[b] || vc.boxed[b] {
					precise = false
				}
				if _, ok := s.env[b]; !ok {
					precise = false
				}
			}
		}
		if !a.whole && len(a.bases) == 0 && !a.freshOnly {
			continue
		}
		if !precise {
			s.heap[name] = Fresh(name+".lp", a.sort)
			continue
		}
		var bs []types.Object
		for b := range a.bases {
			bs = append(bs, b)
		}
		sort.Slice(bs, func(i, j int) bool { return bs[i].Pos() < bs[j].Pos() })
		for _, b := range bs {
			cur = Store(cur, s.env[b], Fresh(name+".at."+b.Name(), a.sort.Val))
		}
		n := Fresh(name+".lp", a.sort)
		s.assume(Eq(n, cur))
		s.heap[name] = n
	}
	na := Fresh("alloc", SInt)
	s.assume(Ge(na, s.alloc))
	if f := allocTypesFact(append(effectTypeTags(eff), eff.extraTypes...), s.alloc, na); f != nil {
		s.assume(f)
	}
	s.alloc = na
	for _, name := range names {
		vc.assumeFrame(s, name)
		if f := vc.rootFact(name, s.heap[name], s.alloc); f != True {
			s.assume(f)
		}
	}
}

func (vc *VC) loopSpec(st ast.Stmt) (*LoopSpec, string) {
	path, ok := vc.loopPath[st]
	if !ok {
		return nil, ""
	}
	if vc.fn.Spec == nil {
		return nil, path
	}
	// loops are specified only for the function under verification (frame 0 and its closures)
	return vc.fn.Spec.Loops[path], path
}

func (vc *VC) loopEnv(s *State, st ast.Stmt, path string, old *State) *SpecEnv {
	fr := vc.frame()
	env := &SpecEnv{vc: vc, st: s, old: old, vars: map[string]TV{}, pkg: fr.pkg, what: "loop " + path + " of " + shortKey(vc.fn.Key)}
	var body *ast.BlockStmt
	switch x := st.(type) {
	case *ast.ForStmt:
		body = x.Body
	case *ast.RangeStmt:
		body = x.Body
	}
	env.scope = fr.info.Scopes[st]
	env.pos = body.Lbrace
	env.loopPath = path
	// role aliases
	for _, role := range []string{"$i", "$k", "$v", "$visited", "$xs"} {
		if t, ok := s.ghost[role+"@"+path]; ok {
			env.vars[role] = TV{t, vc.ghostTypes[role+"@"+path]}
		}
	}
	for k, t := range s.ghost {
		env.vars[k] = TV{t, vc.ghostTypes[k]}
	}
	// parameters of the top function keep their entry values? No: loop invariants see current values.
	return env
}

func (vc *VC) checkInvariants(s *State, st ast.Stmt, ls *LoopSpec, path, phase string, old *State, auto []*Term) {
	for i, a := range auto {
		vc.oblige(s, "invariant-"+phase, fmt.Sprintf("loop%s:auto%d", path, i+1), "automatic loop bound invariant", st.Pos(), a)
	}
	if ls == nil {
		return
	}
	env := vc.loopEnv(s, st, path, old)
	for i, inv := range ls.Invariants {
		vc.oblige(s, "invariant-"+phase, fmt.Sprintf("loop%s:inv%d", path, i+1), "loop invariant: "+inv.Src, st.Pos(), env.evalBool(inv))
	}
}

func (vc *VC) assumeInvariants(s *State, st ast.Stmt, ls *LoopSpec, path string, old *State) {
	if ls == nil {
		return
	}
	env := vc.loopEnv(s, st, path, old)
	for _, inv := range ls.Invariants {
		s.assume(env.evalBool(inv))
	}
}

func (vc *VC) execFor(s *State, x *ast.ForStmt, label string) {
	fr := vc.frame()
	if x.Init != nil {
		vc.execStmt(s, x.Init, "")
	}
	ls, path := vc.loopSpec(x)
	if path == "" {
		vc.unsupported(x, "loop outside the function under verification (callee with loops needs a contract)")
	}
	entry := vc.entry
	vc.checkInvariants(s, x, ls, path, "init", entry, nil)
	nodes := []ast.Node{x.Body}
	if x.Cond != nil {
		nodes = append(nodes, x.Cond)
	}
	if x.Post != nil {
		nodes = append(nodes, x.Post)
	}
	eff := vc.effectsOf(nodes, fr.info, 0)
	vc.havocEffects(s, eff)
	vc.assumeInvariants(s, x, ls, path, entry)
	vc.cover(s, "loop"+path, "loop head reachable with invariant", x.Pos())
	var dec0 *Term
	if ls != nil && ls.Decreases != nil {
		dec0 = vc.loopEnv(s, x, path, entry).eval(ls.Decreases).T
	}
	exit := s.clone()
	body := s.clone()
	if x.Cond != nil {
		c := vc.eval(body, x.Cond)
		// evaluating the condition may add facts; the exit state shares them
		exit = body.clone()
		exit.assume(Not(c))
		body.assume(c)
	} else {
		exit.dead = true
	}
	tgt := &jumpTarget{label: label, isLoop: true}
	fr.targets = append(fr.targets, tgt)
	var iterStart *State
	if ls != nil && len(ls.Steps) > 0 {
		iterStart = body.clone()
	}
	vc.execBlock(body, x.Body.List)
	fr.targets = fr.targets[:len(fr.targets)-1]
	back := vc.mergeStates(append([]*State{body}, tgt.continues...))
	if back != nil {
		if x.Post != nil {
			vc.execStmt(back, x.Post, "")
		}
		vc.checkInvariants(back, x, ls, path, "step", entry, nil)
		if iterStart != nil {
			env := vc.loopEnv(back, x, path, entry)
			env.pre = iterStart
			for i, st := range ls.Steps {
				vc.obligeKeep(back, "step", fmt.Sprintf("loop%s:step%d", path, i+1), "loop transition: "+st.Src, x.Pos(), env.evalBool(st))
			}
		}
		if dec0 != nil {
			d1 := vc.loopEnv(back, x, path, entry).eval(ls.Decreases).T
			vc.oblige(back, "decreases", "loop"+path, "loop variant decreases and is bounded: "+ls.Decreases.Src, x.Pos(), And(Ge(dec0, IntLit(0)), Lt(d1, dec0)))
		}
	}
	vc.join(s, append([]*State{exit}, tgt.breaks...)...)
}

func (vc *VC) execRange(s *State, x *ast.RangeStmt, label string) {
	fr := vc.frame()
	ls, path := vc.loopSpec(x)
	if path == "" {
		vc.unsupported(x, "loop outside the function under verification (callee with loops needs a contract)")
	}
	xt := vc.typeOf(x.X)
	coll := vc.eval(s, x.X)
	if s.dead {
		return
	}
	entry := vc.entry
	info := fr.info
	keyObj := func(e ast.Expr) *types.Var {
		if e == nil || isBlank(e) {
			return nil
		}
		id, ok := e.(*ast.Ident)
		if !ok {
			vc.unsupported(x, "range with non-identifier key/value")
		}
		if x.Tok == token.DEFINE {
			if o := info.Defs[id]; o != nil {
				return o.(*types.Var)
			}
		}
		return info.ObjectOf(id).(*types.Var)
	}
	kv, vv := keyObj(x.Key), keyObj(x.Value)
	eff := vc.effectsOf([]ast.Node{x.Body}, info, 0)
	if kv != nil {
		eff.vars[kv] = true
	}
	if vv != nil {
		eff.vars[vv] = true
	}
	iName := "$i@" + path
	s.ghost["$xs@"+path] = coll
	vc.ghostTypes["$xs@"+path] = xt
	switch u := xt.Underlying().(type) {
	case *types.Slice, *types.Array, *types.Basic:
		var n *Term
		var elemAt func(st *State, i *Term) *Term
		var elemT types.Type
		switch uu := u.(type) {
		case *types.Slice:
			n = sliceLen(coll)
			elemT = uu.Elem()
			elemAt = func(st *State, i *Term) *Term { return vc.loaded(st, elemT, Select(sliceElems(coll), i), "el") }
		case *types.Array:
			n = IntLit(uu.Len())
			elemT = uu.Elem()
			elemAt = func(st *State, i *Term) *Term { return vc.loaded(st, elemT, Select(coll, i), "el") }
		case *types.Basic:
			if uu.Info()&types.IsString == 0 {
				vc.unsupported(x, "range over "+xt.String())
			}
			vc.unsupported(x, "range over string")
		}
		n = s.name("n", n)
		s.ghost[iName] = IntLit(0)
		vc.ghostTypes[iName] = types.Typ[types.Int]
		bound := func(st *State) []*Term {
			i := st.ghost[iName]
			return []*Term{And(Le(IntLit(0), i), Le(i, n))}
		}
		vc.checkInvariants(s, x, ls, path, "init", entry, bound(s))
		vc.havocEffects(s, eff)
		s.ghost[iName] = Fresh("i", SInt)
		for _, b := range bound(s) {
			s.assume(b)
		}
		vc.assumeInvariants(s, x, ls, path, entry)
		vc.cover(s, "loop"+path, "loop head reachable with invariant", x.Pos())
		{
			// a later iteration must be reachable too: an invariant that (with stale ghost state, say) pins the index to
			// 0 would make every step obligation speak about the first iteration only
			later := s.clone()
			later.assume(Gt(later.ghost[iName], IntLit(0)))
			vc.cover(later, "loop"+path+":later", "loop head reachable with invariant after the first iteration", x.Pos())
		}
		i := s.ghost[iName]
		exit := s.clone()
		exit.assume(Not(Lt(i, n)))
		body := s.clone()
		body.assume(Lt(i, n))
		if kv != nil {
			vc.declVar(body, kv, i)
		}
		if vv != nil {
			vc.declVar(body, vv, elemAt(body, i))
		}
		tgt := &jumpTarget{label: label, isLoop: true}
		fr.targets = append(fr.targets, tgt)
		var iterStart *State
		if ls != nil && len(ls.Steps) > 0 {
			iterStart = body.clone()
		}
		vc.execBlock(body, x.Body.List)
		fr.targets = fr.targets[:len(fr.targets)-1]
		back := vc.mergeStates(append([]*State{body}, tgt.continues...))
		if back != nil {
			back.ghost[iName] = Add(i, IntLit(1))
			vc.checkInvariants(back, x, ls, path, "step", entry, bound(back))
			if iterStart != nil {
				env := vc.loopEnv(back, x, path, entry)
				env.pre = iterStart
				for si, st := range ls.Steps {
					vc.obligeKeep(back, "step", fmt.Sprintf("loop%s:step%d", path, si+1), "loop transition: "+st.Src, x.Pos(), env.evalBool(st))
				}
			}
		}
		// exit states keep the ghost index (== n on normal exit)
		vc.join(s, append([]*State{exit}, tgt.breaks...)...)
	case *types.Map:
		visName := "$visited@" + path
		kName := "$k@" + path
		ks := sortOf(u.Key())
		s.ghost[visName] = ConstArr(ArraySort(ks, SBool), False)
		vc.checkInvariants(s, x, ls, path, "init", entry, nil)
		vc.havocEffects(s, eff)
		vis := Fresh("visited", ArraySort(ks, SBool))
		s.ghost[visName] = vis
		// visited keys are keys of the map
		qk := BoundVar("vk", ks)
		s.assume(Forall([]*Term{qk}, Implies(Select(vis, qk), vc.mapInDom(s, u, coll, qk)), []*Term{Select(vis, qk)}))
		vc.assumeInvariants(s, x, ls, path, entry)
		vc.cover(s, "loop"+path, "loop head reachable with invariant", x.Pos())
		exit := s.clone()
		qk2 := BoundVar("vk2", ks)
		exit.assume(Forall([]*Term{qk2}, Implies(vc.mapInDom(exit, u, coll, qk2), Select(vis, qk2))))
		body := s.clone()
		k := vc.loaded(body, u.Key(), Fresh("k", ks), "k")
		body.assume(And(vc.mapInDom(body, u, coll, k), Not(Select(vis, k))))
		body.ghost[kName] = k
		if kv != nil {
			vc.declVar(body, kv, k)
		}
		if vv != nil {
			v, _ := vc.mapGet(body, u, coll, k)
			vc.declVar(body, vv, v)
		}
		tgt := &jumpTarget{label: label, isLoop: true}
		fr.targets = append(fr.targets, tgt)
		vc.execBlock(body, x.Body.List)
		fr.targets = fr.targets[:len(fr.targets)-1]
		back := vc.mergeStates(append([]*State{body}, tgt.continues...))
		if back != nil {
			back.ghost[visName] = Store(vis, k, True)
			delete(back.ghost, kName)
			vc.checkInvariants(back, x, ls, path, "step", entry, nil)
		}
		for _, b := range tgt.breaks {
			delete(b.ghost, kName)
		}
		vc.join(s, append([]*State{exit}, tgt.breaks...)...)
	case *types.Chan:
		vc.prog.Abstracted["range over channel: elements unconstrained, no exit knowledge ("+shortKey(vc.fn.Key)+")"] = true
		vc.checkInvariants(s, x, ls, path, "init", entry, nil)
		vc.havocEffects(s, eff)
		vc.assumeInvariants(s, x, ls, path, entry)
		exit := s.clone()
		body := s.clone()
		if kv != nil {
			vc.declVar(body, kv, vc.loaded(body, u.Elem(), Fresh("recv", sortOf(u.Elem())), "recv"))
		}
		tgt := &jumpTarget{label: label, isLoop: true}
		fr.targets = append(fr.targets, tgt)
		vc.execBlock(body, x.Body.List)
		fr.targets = fr.targets[:len(fr.targets)-1]
		back := vc.mergeStates(append([]*State{body}, tgt.continues...))
		if back != nil {
			vc.checkInvariants(back, x, ls, path, "step", entry, nil)
		}
		vc.join(s, append([]*State{exit}, tgt.breaks...)...)
	default:
		vc.unsupported(x, "range over "+xt.String())
	}
}

// havocGhost forgets, at a loop head, the ghost state an iteration may change: call records of the callees called in
// the region, the goroutine / channel / WaitGroup counters when the region spawns or synchronises, the failure and
// exit flags and the ghost file system when it calls anything. Counters only grow.
func (vc *VC) havocGhost(s *State, eff *Effects) {
	var keys []string
	for k := range s.ghost {
		keys = append(keys, k)
	}
	sort.Strings(keys)
	grow := func(k string) {
		old := s.ghost[k]
		n := Fresh(strings.TrimPrefix(k, "$"), old.Sort)
		if old.Sort == SInt {
			s.assume(Ge(n, old))
		}
		s.ghost[k] = n
	}
	for _, k := range keys {
		switch {
		case strings.HasPrefix(k, "$call."):
			rest := strings.TrimPrefix(k, "$call.")
			i := strings.LastIndex(rest, ".")
			if i > 0 && eff.calls[rest[:i]] {
				if strings.HasSuffix(k, ".n") {
					grow(k)
				} else {
					s.ghost[k] = Fresh("rec", s.ghost[k].Sort)
				}
			}
		case k == "$spawned":
			if eff.spawns {
				grow(k)
			}
		case k == "$quiet", k == "$defaultTaken":
			if eff.spawns || eff.syncs || eff.anyCall {
				s.ghost[k] = Fresh(strings.TrimPrefix(k, "$"), SBool)
			}
		case k == "$fcalls":
			if eff.anyCall {
				grow(k)
			}
		case k == "$failed", k == "$exited", k == "$recovered":
			if eff.anyCall {
				s.ghost[k] = Fresh(strings.TrimPrefix(k, "$"), SBool)
			}
		case k == "$exitcode":
			if eff.anyCall {
				s.ghost[k] = Fresh("exitcode", SInt)
			}
		case strings.HasPrefix(k, "$fs."):
			if eff.anyCall {
				s.ghost[k] = Fresh("fs", s.ghost[k].Sort)
			}
		}
	}
	if eff.spawns || eff.syncs || eff.anyCall {
		for _, g := range []string{"sent", "recvd", "wgdone", "wgadd", "fcalls", "sentNonNil"} {
			if _, ok := s.heap["GH."+g]; ok {
				vc.havocArr(s, "GH."+g)
			}
		}
	}
}
