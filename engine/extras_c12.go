package main

// C12: ground obligation tying the regular expression that finds insertion-point markers (generator.insertReg)
// to the documented marker language: "@@thriftgo_insertion_point(" name ")" with name over [$.0-9a-zA-Z_]*.
// The pattern is evaluated from the source (constant format + constant argument of fmt.Sprintf), translated to an
// SMT-LIB regular expression, and the solver decides language equality with the specification.

import (
	"fmt"
	"go/ast"
	"go/constant"
	"go/types"
	"strings"
)

func init() { extraGens["insertreg"] = genInsertReg }

func genInsertReg(prog *Program, cfg *PropCfg, repo, verif string) ([]*Obligation, []string) {
	pkg := prog.Pkgs[modulePath+"/generator"]
	if pkg == nil {
		return nil, []string{"insertreg: package generator not loaded"}
	}
	var pattern string
	found := false
	for _, f := range pkg.Syntax {
		ast.Inspect(f, func(n ast.Node) bool {
			vs, ok := n.(*ast.ValueSpec)
			if !ok || len(vs.Names) != 1 || vs.Names[0].Name != "insertReg" || len(vs.Values) != 1 {
				return true
			}
			call, ok := vs.Values[0].(*ast.CallExpr) // regexp.MustCompile(...)
			if !ok || len(call.Args) != 1 {
				return true
			}
			if p, ok := constString(pkg.TypesInfo, call.Args[0]); ok {
				pattern, found = p, true
				return false
			}
			inner, ok := call.Args[0].(*ast.CallExpr) // fmt.Sprintf(format, arg)
			if !ok || len(inner.Args) != 2 {
				return true
			}
			fs, ok1 := constString(pkg.TypesInfo, inner.Args[0])
			as, ok2 := constString(pkg.TypesInfo, inner.Args[1])
			if ok1 && ok2 && strings.Count(fs, "%s") == 1 && strings.Count(fs, "%") == 1 {
				pattern, found = strings.Replace(fs, "%s", as, 1), true
			}
			return false
		})
	}
	if !found {
		return nil, []string{"insertreg: cannot evaluate the pattern of generator.insertReg from the source"}
	}
	re, err := goRegexToSMT(pattern)
	if err != nil {
		return nil, []string{"insertreg: " + err.Error()}
	}
	class := `(re.union (str.to_re "$") (str.to_re ".") (re.range "0" "9") (re.range "a" "z") (re.range "A" "Z") (str.to_re "_"))`
	spec := `(re.++ (str.to_re "@@thriftgo_insertion_point(") (re.* ` + class + `) (str.to_re ")"))`
	smt := "(set-logic ALL)\n(declare-const x String)\n(assert (not (= (str.in_re x " + re + ") (str.in_re x " + spec + "))))\n(check-sat)\n"
	return []*Obligation{{Name: "generator.insertReg#ground:marker-language", Kind: "ground", Func: "generator.insertReg",
		Desc: fmt.Sprintf("the pattern %q accepts exactly the markers @@thriftgo_insertion_point(name), name over [$.0-9a-zA-Z_]*", pattern), Pos: "generator/file_manager.go", Raw: smt}}, nil
}

func constString(info *types.Info, e ast.Expr) (string, bool) {
	if tv, ok := info.Types[e]; ok && tv.Value != nil && tv.Value.Kind() == constant.String {
		return constant.StringVal(tv.Value), true
	}
	return "", false
}

// goRegexToSMT translates a small subset of RE2 syntax: literals, escapes, [classes] with ranges, groups, | * + ?
func goRegexToSMT(p string) (string, error) {
	pos := 0
	var parseAlt func() (string, error)
	lit := func(c byte) string {
		s := string(c)
		if c == '"' {
			s = `""`
		}
		return `(str.to_re "` + s + `")`
	}
	parseAtom := func() (string, error) {
		if pos >= len(p) {
			return "", fmt.Errorf("unexpected end of pattern")
		}
		c := p[pos]
		switch c {
		case '(':
			pos++
			if strings.HasPrefix(p[pos:], "?:") {
				pos += 2
			}
			r, err := parseAlt()
			if err != nil {
				return "", err
			}
			if pos >= len(p) || p[pos] != ')' {
				return "", fmt.Errorf("missing )")
			}
			pos++
			return r, nil
		case '[':
			pos++
			var parts []string
			neg := false
			if pos < len(p) && p[pos] == '^' {
				neg = true
				pos++
			}
			for pos < len(p) && p[pos] != ']' {
				a := p[pos]
				if a == '\\' && pos+1 < len(p) {
					pos++
					a = p[pos]
				}
				pos++
				if pos+1 < len(p) && p[pos] == '-' && p[pos+1] != ']' {
					b := p[pos+1]
					pos += 2
					parts = append(parts, fmt.Sprintf(`(re.range "%c" "%c")`, a, b))
				} else {
					parts = append(parts, lit(a))
				}
			}
			if pos >= len(p) {
				return "", fmt.Errorf("missing ]")
			}
			pos++
			u := "(re.union re.none " + strings.Join(parts, " ") + ")"
			if neg {
				u = "(re.diff re.allchar " + u + ")"
			}
			return u, nil
		case '\\':
			if pos+1 >= len(p) {
				return "", fmt.Errorf("trailing backslash")
			}
			pos += 2
			switch p[pos-1] {
			case 'd':
				return `(re.range "0" "9")`, nil
			case 'w':
				return `(re.union (re.range "0" "9") (re.range "a" "z") (re.range "A" "Z") (str.to_re "_"))`, nil
			}
			return lit(p[pos-1]), nil
		case '.':
			pos++
			return "re.allchar", nil
		case ')', '|', '*', '+', '?':
			return "", fmt.Errorf("unexpected %q", c)
		}
		pos++
		return lit(c), nil
	}
	parseSeq := func() (string, error) {
		var parts []string
		for pos < len(p) && p[pos] != ')' && p[pos] != '|' {
			a, err := parseAtom()
			if err != nil {
				return "", err
			}
			for pos < len(p) && (p[pos] == '*' || p[pos] == '+' || p[pos] == '?') {
				switch p[pos] {
				case '*':
					a = "(re.* " + a + ")"
				case '+':
					a = "(re.+ " + a + ")"
				case '?':
					a = "(re.opt " + a + ")"
				}
				pos++
			}
			parts = append(parts, a)
		}
		if len(parts) == 0 {
			return `(str.to_re "")`, nil
		}
		if len(parts) == 1 {
			return parts[0], nil
		}
		return "(re.++ " + strings.Join(parts, " ") + ")", nil
	}
	parseAlt = func() (string, error) {
		first, err := parseSeq()
		if err != nil {
			return "", err
		}
		alts := []string{first}
		for pos < len(p) && p[pos] == '|' {
			pos++
			n, err := parseSeq()
			if err != nil {
				return "", err
			}
			alts = append(alts, n)
		}
		if len(alts) == 1 {
			return first, nil
		}
		return "(re.union " + strings.Join(alts, " ") + ")", nil
	}
	r, err := parseAlt()
	if err != nil {
		return "", err
	}
	if pos != len(p) {
		return "", fmt.Errorf("unexpected %q at %d", p[pos], pos)
	}
	return r, nil
}
