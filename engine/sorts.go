package main

// Mapping of Go types to SMT sorts and heap array names.

import (
	"fmt"
	"go/types"
	"strings"
)

func typeKey(t types.Type) string {
	return smtName(types.TypeString(t, func(p *types.Package) string { return p.Name() }))
}

var sortCache = map[types.Type]*Sort{}

func isStructType(t types.Type) (*types.Struct, bool) {
	s, ok := t.Underlying().(*types.Struct)
	return s, ok
}

func sortOf(t types.Type) *Sort {
	if s, ok := sortCache[t]; ok {
		return s
	}
	s := sortOf1(t)
	sortCache[t] = s
	return s
}

func sortOf1(t types.Type) *Sort {
	switch u := t.Underlying().(type) {
	case *types.Basic:
		info := u.Info()
		switch {
		case info&types.IsBoolean != 0:
			return SBool
		case info&types.IsInteger != 0:
			return SInt
		case info&types.IsString != 0:
			return SStr
		case info&types.IsFloat != 0:
			return SFloat
		case u.Kind() == types.UnsafePointer, u.Kind() == types.UntypedNil:
			return SInt
		}
		return SInt
	case *types.Pointer, *types.Map, *types.Chan, *types.Signature, *types.Interface:
		return SInt
	case *types.Slice:
		es := sortOf(u.Elem())
		name := "Slice_" + smtName(es.S)
		name = strings.NewReplacer("(", "", ")", "", " ", "_").Replace(name)
		s, isNew := DataSort(name)
		if isNew {
			s.DT.Fields = []DTField{{"elems", ArraySort(SInt, es)}, {"len", SInt}, {"cap", SInt}, {"isnil", SBool}}
		}
		return s
	case *types.Array:
		return ArraySort(SInt, sortOf(u.Elem()))
	case *types.Struct:
		name := "S_" + typeKey(t)
		if _, named := t.(*types.Named); !named {
			name = fmt.Sprintf("S_anon%d", len(sortCache))
		}
		s, isNew := DataSort(name)
		if isNew {
			sortCache[t] = s
			fs := make([]DTField, u.NumFields())
			for i := 0; i < u.NumFields(); i++ {
				nm := fieldSelName(u.Field(i))
				if nm == "_" {
					nm = fmt.Sprintf("_blank%d", i)
				}
				fs[i] = DTField{nm, sortOf(u.Field(i).Type())}
			}
			s.DT.Fields = fs
		}
		return s
	case *types.Tuple:
		return SInt
	}
	panic("sortOf: unsupported type " + t.String())
}

func fieldSelName(f *types.Var) string { return smtName(f.Name()) }

// intRange returns the bounds for a bounded integer type.
func intRange(t types.Type) (lo, hi string, ok bool) {
	b, isB := t.Underlying().(*types.Basic)
	if !isB || b.Info()&types.IsInteger == 0 {
		return "", "", false
	}
	switch b.Kind() {
	case types.Int8:
		return "-128", "127", true
	case types.Int16:
		return "-32768", "32767", true
	case types.Int32:
		return "-2147483648", "2147483647", true
	case types.Int64, types.Int:
		return "-9223372036854775808", "9223372036854775807", true
	case types.Uint8:
		return "0", "255", true
	case types.Uint16:
		return "0", "65535", true
	case types.Uint32:
		return "0", "4294967295", true
	case types.Uint64, types.Uint, types.Uintptr:
		return "0", "18446744073709551615", true
	}
	return "", "", false
}

func intBits(t types.Type) (bits int, signed bool, ok bool) {
	b, isB := t.Underlying().(*types.Basic)
	if !isB || b.Info()&types.IsInteger == 0 {
		return 0, false, false
	}
	switch b.Kind() {
	case types.Int8:
		return 8, true, true
	case types.Int16:
		return 16, true, true
	case types.Int32:
		return 32, true, true
	case types.Int64, types.Int:
		return 64, true, true
	case types.Uint8:
		return 8, false, true
	case types.Uint16:
		return 16, false, true
	case types.Uint32:
		return 32, false, true
	case types.Uint64, types.Uint, types.Uintptr:
		return 64, false, true
	}
	return 0, false, false
}

func pow2(n int) string {
	// decimal string of 2^n for n <= 64
	v := []int{1}
	for i := 0; i < n; i++ {
		carry := 0
		for j := range v {
			x := v[j]*2 + carry
			v[j] = x % 10
			carry = x / 10
		}
		if carry > 0 {
			v = append(v, carry)
		}
	}
	var b strings.Builder
	for i := len(v) - 1; i >= 0; i-- {
		b.WriteByte(byte('0' + v[i]))
	}
	return b.String()
}

// typeInv returns the type invariant fact for a value of Go type t (range of ints, pointer bounds, slice lengths).
// deepInv: also state (with a quantifier) that the elements of a slice of references are allocated and typed.
var deepInv bool

func typeInv(t types.Type, v *Term, alloc *Term) *Term {
	if lo, hi, ok := intRange(t); ok {
		return And(Le(BigLit(lo), v), Le(v, BigLit(hi)))
	}
	switch u := t.Underlying().(type) {
	case *types.Pointer, *types.Map, *types.Chan:
		if alloc != nil {
			return And(Le(IntLit(0), v), Lt(v, alloc), refTyped(t, v))
		}
		return And(Le(IntLit(0), v), refTyped(t, v))
	case *types.Interface, *types.Signature:
		return Le(IntLit(0), v)
	case *types.Slice:
		_ = u
		l := Sel(v, "len")
		c := Sel(v, "cap")
		base := And(Le(IntLit(0), l), Le(l, c), Le(c, BigLit("9223372036854775807")), Implies(Sel(v, "isnil"), Eq(c, IntLit(0))))
		if _, hi, ok := intRange(u.Elem()); ok && len(hi) <= 3 {
			// byte-sized elements: every cell of the backing array holds a value of the element type
			i := BoundVar("ti", SInt)
			el := Select(Sel(v, "elems"), i)
			base = And(base, Forall([]*Term{i}, typeInv(u.Elem(), el, nil), []*Term{el}))
		}
		if deepInv && isRefType(u.Elem()) && alloc != nil {
			i := BoundVar("ti", SInt)
			el := Select(Sel(v, "elems"), i)
			base = And(base, Forall([]*Term{i}, Implies(And(Le(IntLit(0), i), Lt(i, l)), And(Le(IntLit(0), el), Lt(el, alloc), refTyped(u.Elem(), el))), []*Term{el}))
		}
		return base
	case *types.Basic:
		if u.Info()&types.IsString != 0 {
			return And(Ge(strLen(v), IntLit(0)), Le(strLen(v), BigLit("9223372036854775807")))
		}
	case *types.Struct:
		if v.Sort.DT == nil || u.NumFields() > 24 {
			return True
		}
		var parts []*Term
		for i := 0; i < u.NumFields(); i++ {
			f := u.Field(i)
			if f.Name() == "_" {
				continue
			}
			switch f.Type().Underlying().(type) {
			case *types.Struct:
				continue // one level only
			}
			parts = append(parts, typeInv(f.Type(), Sel(v, fieldSelName(f)), alloc))
		}
		return And(parts...)
	}
	return True
}

// zeroValue of a Go type.
func zeroValue(t types.Type) *Term {
	switch u := t.Underlying().(type) {
	case *types.Basic:
		info := u.Info()
		switch {
		case info&types.IsBoolean != 0:
			return False
		case info&types.IsString != 0:
			return strLit("")
		case info&types.IsFloat != 0:
			return Const("flt.zero", SFloat)
		}
		return IntLit(0)
	case *types.Slice:
		s := sortOf(t)
		return nilSlice(s)
	case *types.Array:
		s := sortOf(t)
		return ConstArr(s, zeroValue(u.Elem()))
	case *types.Struct:
		s := sortOf(t)
		args := make([]*Term, u.NumFields())
		for i := range args {
			args[i] = zeroValue(u.Field(i).Type())
		}
		return Ctor(s, args...)
	}
	return IntLit(0)
}

func nilSlice(s *Sort) *Term {
	elemS := s.DT.Fields[0].Sort
	return Ctor(s, Const("nilelems_"+smtName(strings.NewReplacer("(", "", ")", "", " ", "_").Replace(elemS.S)), elemS), IntLit(0), IntLit(0), True)
}

// ---- strings ----

var strLits = map[string]*Term{}
var strLitOrder []string

func strLit(s string) *Term {
	if t, ok := strLits[s]; ok {
		return t
	}
	name := fmt.Sprintf("strlit!%d", len(strLits))
	t := Const(name, SStr)
	strLits[s] = t
	strLitOrder = append(strLitOrder, s)
	return t
}

func strLen(s *Term) *Term   { return App("sx.len", SInt, s) }
func strAt(s, i *Term) *Term { return App("sx.at", SInt, s, i) }
func strConcat(a, b *Term) *Term {
	if a == strLit("") {
		return b
	}
	if b == strLit("") {
		return a
	}
	return App("sx.cat", SStr, a, b)
}
func strSub(s, lo, hi *Term) *Term { return App("sx.sub", SStr, s, lo, hi) }

// strAxioms: background facts about string literals and string functions.
func strAxioms(used map[*Decl]bool) []*Term {
	var out []*Term
	var lits []*Term
	for _, s := range strLitOrder {
		t := strLits[s]
		if !used[t.D] {
			continue
		}
		lits = append(lits, t)
		out = append(out, Eq(strLen(t), IntLit(int64(len(s)))))
		if len(s) <= 48 {
			for i := 0; i < len(s); i++ {
				out = append(out, Eq(strAt(t, IntLit(int64(i))), IntLit(int64(s[i]))))
			}
		}
	}
	if len(lits) > 1 {
		out = append(out, op("distinct", SBool, lits...))
	}
	x := BoundVar("sx", SStr)
	y := BoundVar("sy", SStr)
	i := BoundVar("si", SInt)
	j := BoundVar("sj", SInt)
	out = append(out, Forall([]*Term{x}, Ge(strLen(x), IntLit(0)), []*Term{strLen(x)}))
	out = append(out, Forall([]*Term{x}, Implies(Eq(strLen(x), IntLit(0)), Eq(x, strLit(""))), []*Term{strLen(x)}))
	out = append(out, Eq(strLen(strLit("")), IntLit(0)))
	if d, ok := declTab["conv.runes2str"]; ok && used[d] {
		// string([]rune) depends only on the runes below the length
		e1 := BoundVar("re1", d.Args[0])
		e2 := BoundVar("re2", d.Args[0])
		n := BoundVar("rn", SInt)
		n2 := BoundVar("rn2", SInt)
		a1 := App("conv.runes2str", SStr, e1, n)
		a2 := App("conv.runes2str", SStr, e2, n2)
		// two lengths and an equality guard: the lengths of two applications are rarely the same term
		out = append(out, Forall([]*Term{e1, e2, n, n2}, Implies(Eq(n, n2), Or(Eq(a1, a2), Exists([]*Term{j}, And(Le(IntLit(0), j), Lt(j, n), Not(Eq(Select(e1, j), Select(e2, j))))))), []*Term{a1, a2}))
		out = append(out, Forall([]*Term{e1}, Eq(App("conv.runes2str", SStr, e1, IntLit(0)), strLit("")), []*Term{App("conv.runes2str", SStr, e1, IntLit(0))}))
		out = append(out, Forall([]*Term{e1, n}, Implies(Gt(n, IntLit(0)), Gt(strLen(App("conv.runes2str", SStr, e1, n)), IntLit(0))), []*Term{App("conv.runes2str", SStr, e1, n)}))
	}
	if d, ok := declTab["sx.at"]; ok && used[d] {
		out = append(out, Forall([]*Term{x, i}, And(Le(IntLit(0), strAt(x, i)), Le(strAt(x, i), IntLit(255))), []*Term{strAt(x, i)}))
	}
	if d, ok := declTab["sx.cat"]; ok && used[d] {
		cat := App("sx.cat", SStr, x, y)
		out = append(out, Forall([]*Term{x, y}, Eq(strLen(cat), Add(strLen(x), strLen(y))), []*Term{cat}))
		out = append(out, Forall([]*Term{x, y, i}, Eq(strAt(cat, i), Ite(Lt(i, strLen(x)), strAt(x, i), strAt(y, Sub(i, strLen(x))))), []*Term{strAt(cat, i)}))
		out = append(out, Forall([]*Term{x}, Eq(App("sx.cat", SStr, x, strLit("")), x), []*Term{App("sx.cat", SStr, x, strLit(""))}))
		out = append(out, Forall([]*Term{x}, Eq(App("sx.cat", SStr, strLit(""), x), x), []*Term{App("sx.cat", SStr, strLit(""), x)}))
	}
	if d, ok := declTab["sx.sub"]; ok && used[d] {
		sub := App("sx.sub", SStr, x, i, j)
		ok := And(Le(IntLit(0), i), Le(i, j), Le(j, strLen(x)))
		out = append(out, Forall([]*Term{x, i, j}, Implies(ok, Eq(strLen(sub), Sub(j, i))), []*Term{sub}))
		k := BoundVar("sk", SInt)
		out = append(out, Forall([]*Term{x, i, j, k}, Implies(And(ok, Le(IntLit(0), k), Lt(k, Sub(j, i))), Eq(strAt(sub, k), strAt(x, Add(i, k)))), []*Term{strAt(sub, k)}))
		out = append(out, Forall([]*Term{x}, Eq(App("sx.sub", SStr, x, IntLit(0), strLen(x)), x), []*Term{App("sx.sub", SStr, x, IntLit(0), strLen(x))}))
	}
	for _, nm := range []string{"std.strings.Index", "std.strings.LastIndex"} {
		d, ok := declTab[nm]
		if !ok || !used[d] {
			continue
		}
		idx := App(nm, SInt, x, y)
		occ := func(a, b, c *Term) *Term { return App("sx.occursAt", SBool, a, b, c) }
		out = append(out, Forall([]*Term{x, y}, And(Ge(idx, IntLit(-1)), Implies(Ge(idx, IntLit(0)), And(Le(idx, Sub(strLen(x), strLen(y))), occ(x, y, idx)))), []*Term{idx}))
		if nm == "std.strings.LastIndex" {
			out = append(out, Forall([]*Term{x, y, j}, Implies(And(occ(x, y, j), Ge(j, IntLit(0))), And(Le(j, idx), Ge(idx, IntLit(0)))), []*Term{occ(x, y, j), idx}))
		} else {
			out = append(out, Forall([]*Term{x, y, j}, Implies(And(occ(x, y, j), Ge(j, IntLit(0))), And(Ge(j, idx), Ge(idx, IntLit(0)))), []*Term{occ(x, y, j), idx}))
		}
	}
	if d, ok := declTab["sx.prefixof"]; ok && used[d] {
		pf := App("sx.prefixof", SBool, x, y)
		out = append(out, Forall([]*Term{x, y}, Implies(pf, Le(strLen(x), strLen(y))), []*Term{pf}))
		out = append(out, Forall([]*Term{x}, App("sx.prefixof", SBool, x, x), []*Term{App("sx.prefixof", SBool, x, x)}))
		out = append(out, Forall([]*Term{y}, App("sx.prefixof", SBool, strLit(""), y), []*Term{App("sx.prefixof", SBool, strLit(""), y)}))
	}
	return out
}
