package main

// Modifies clauses, footprints (arrays a function may write, including on fresh objects), framed havoc.

import (
	"go/ast"
	"go/types"
	"sort"
)

type allow struct {
	whole bool
	refs  []*Term
	sort  *Sort
}

type modSet map[string]*allow

func (ms modSet) get(n string, srt *Sort) *allow {
	a := ms[n]
	if a == nil {
		a = &allow{sort: srt}
		ms[n] = a
	}
	return a
}

// modSetOf evaluates a modifies clause in the pre-state env.
func (vc *VC) modSetOf(spec *FuncSpec, pre *SpecEnv) modSet {
	ms := modSet{}
	fieldOf := func(t types.Type, name string, ref *Term, whole bool, e *SExpr) {
		st, ok := isStructType(t)
		if !ok {
			pre.fail(e, "modifies: not a struct")
		}
		for i := 0; i < st.NumFields(); i++ {
			if st.Field(i).Name() == name || name == "*" {
				a := ms.get(fieldArrName(t, st.Field(i)), ArraySort(SInt, sortOf(st.Field(i).Type())))
				if whole {
					a.whole = true
				} else {
					a.refs = append(a.refs, ref)
				}
			}
		}
	}
	for _, m := range spec.Modifies {
		if isStreamMod(m) {
			for _, n := range streamArrs {
				ms.get(n, ArraySort(SInt, SInt)).whole = true
			}
			continue
		}
		switch m.K {
		case "sel":
			if tn := pre.typeNameOf(m.X); tn != nil {
				fieldOf(tn.Type(), m.Name, nil, true, m)
				continue
			}
			x := pre.eval(m.X)
			p, ok := x.Ty.Underlying().(*types.Pointer)
			if !ok {
				pre.fail(m, "modifies x.f: x must be a pointer")
			}
			fieldOf(p.Elem(), m.Name, x.T, false, m)
			continue
		case "un":
			if m.Op == "*" {
				x := pre.eval(m.X)
				p, ok := x.Ty.Underlying().(*types.Pointer)
				if !ok {
					pre.fail(m, "modifies *x: x must be a pointer")
				}
				if _, ok := isStructType(p.Elem()); ok {
					fieldOf(p.Elem(), "*", x.T, false, m)
				} else {
					a := ms.get(boxArrName(p.Elem()), ArraySort(SInt, sortOf(p.Elem())))
					a.refs = append(a.refs, x.T)
				}
				continue
			}
		case "call":
			if m.X.K == "id" && m.X.Name == "box" && len(m.Args) == 1 {
				if tn := pre.typeNameOf(m.Args[0]); tn != nil {
					ms.get(boxArrName(tn.Type()), ArraySort(SInt, sortOf(tn.Type()))).whole = true
					continue
				}
				pre.fail(m, "box(T): T must be a type name")
			}
			if m.X.K == "id" && m.X.Name == "contents" && len(m.Args) == 1 {
				m = m.Args[0]
			}
		case "id":
			if _, bound := pre.vars[m.Name]; !bound {
				if o := pre.lookupObj(m.Name); o != nil {
					if v, ok := o.(*types.Var); ok && v.Pkg() != nil && v.Parent() == v.Pkg().Scope() {
						ms.get(vc.globalName(v), sortOf(v.Type())).whole = true
						continue
					}
				}
			}
		}
		x := pre.eval(m)
		if x.Ty != nil {
			if mt, ok := x.Ty.Underlying().(*types.Map); ok {
				k := mapKeyName(mt)
				ks, vs := sortOf(mt.Key()), sortOf(mt.Elem())
				ms.get("MD."+k, ArraySort(SInt, ArraySort(ks, SBool))).refs = append(ms.get("MD."+k, nil).refs, x.T)
				ms.get("MV."+k, ArraySort(SInt, ArraySort(ks, vs))).refs = append(ms.get("MV."+k, nil).refs, x.T)
				ms.get("MC."+k, ArraySort(SInt, SInt)).refs = append(ms.get("MC."+k, nil).refs, x.T)
				continue
			}
		}
		pre.fail(m, "unsupported modifies target")
	}
	return ms
}

// footprint: heap arrays that the body of fi may write (on any object, including fresh ones), transitively.
type footprintT struct {
	all    bool
	arrays map[string]*Sort
	types  []*Term // type tags of objects the body may allocate (superset)
}

// allocTypesFact: every reference in [lo, hi) carries one of the given type tags.
func allocTypesFact(tags []*Term, lo, hi *Term) *Term {
	x := BoundVar("ax", SInt)
	var alts []*Term
	for _, t := range tags {
		alts = append(alts, Eq(rtypeOf(x), t))
	}
	return Forall([]*Term{x}, Implies(And(Le(lo, x), Lt(x, hi)), Or(alts...)), []*Term{rtypeOf(x)})
}

func effectTypeTags(eff *Effects) []*Term {
	seen := map[string]bool{}
	var out []*Term
	add := func(t *Term) {
		if !seen[t.Lit] {
			seen[t.Lit] = true
			out = append(out, t)
		}
	}
	for _, a := range eff.arrays {
		switch {
		case a.structT != nil:
			add(typeID(a.structT))
		case a.mt != nil:
			add(typeID(a.mt))
		case a.boxT != nil:
			add(typeID(a.boxT))
		}
	}
	return out
}

func (vc *VC) footprint(fi *FuncInfo) *footprintT {
	if fp, ok := vc.prog.footprints[fi]; ok {
		if fp == nil {
			// recursion in progress: contribute nothing (the outer computation covers it)
			return &footprintT{arrays: map[string]*Sort{}}
		}
		return fp
	}
	vc.prog.footprints[fi] = nil
	fp := &footprintT{arrays: map[string]*Sort{}}
	if fi.Decl == nil || fi.Decl.Body == nil {
		vc.prog.footprints[fi] = fp
		return fp
	}
	// boxed analysis for the callee body
	vc.analyzeBody(fi.Decl.Body, fi.Pkg.TypesInfo, fi.Decl)
	eff := vc.effectsOf([]ast.Node{fi.Decl.Body}, fi.Pkg.TypesInfo, 0)
	if eff.all {
		fp.all = true
	}
	for n, a := range eff.arrays {
		fp.arrays[n] = a.sort
	}
	fp.types = append(effectTypeTags(eff), eff.extraTypes...)
	vc.prog.footprints[fi] = fp
	return fp
}

// callHavoc applies the heap effect of a contracted call: modified locations are forgotten, arrays in the
// callee's footprint keep their values only on objects allocated before the call.
func (vc *VC) callHavoc(s *State, spec *FuncSpec, fi *FuncInfo, pre *SpecEnv) {
	if spec.ModAll {
		vc.havocHeap(s, "modifies * of "+shortKey(spec.Key))
		return
	}
	ms := vc.modSetOf(spec, pre)
	// the callee's modifies clause must lie within the caller's
	if vc.entry != nil && !vc.modAll && !vc.quiet {
		var mns []string
		for n := range ms {
			mns = append(mns, n)
		}
		sort.Strings(mns)
		for _, n := range mns {
			a := ms[n]
			site := "call"
			if vc.curStmt != nil {
				site = vc.siteName("stmt", vc.curStmt)
			}
			if a.whole {
				ta := vc.topMods[n]
				vc.oblige(s, "frame", site+":call:"+n, "callee "+shortKey(spec.Key)+" may modify all of "+n+", which the caller's modifies clause must cover", vc.curPos, BoolLit(ta != nil && ta.whole))
				continue
			}
			for _, ref := range a.refs {
				ta := vc.topMods[n]
				if ta != nil && ta.whole {
					continue
				}
				// a nil "location" in the callee's modifies clause denotes nothing (e.g. the slot of an absent key)
				alts := []*Term{Ge(ref, vc.entry.alloc), Eq(ref, IntLit(0))}
				if ta != nil {
					for _, x := range ta.refs {
						alts = append(alts, Eq(ref, x))
					}
				}
				vc.oblige(s, "frame", site+":call:"+n, "location modified by callee "+shortKey(spec.Key)+" must be covered by the caller's modifies clause", vc.curPos, Or(alts...))
			}
		}
	}
	// Cells of objects allocated by the callee are >= the caller's alloc at the call: the caller has no facts about
	// them (every quantified heap fact is guarded by "allocated"), so they need no havoc; only the modifies
	// clause is forgotten.
	fp := &footprintT{arrays: map[string]*Sort{}}
	// a callee whose body writes no heap array at all (transitively) allocates no object: alloc is unchanged
	noAlloc := spec.Pure && spec.Trusted
	if fi != nil && !spec.Trusted {
		if real := vc.footprint(fi); !real.all && len(real.arrays) == 0 {
			noAlloc = true
		}
	}
	names := map[string]*Sort{}
	for n, a := range ms {
		names[n] = a.sort
	}
	for n, srt := range fp.arrays {
		names[n] = srt
	}
	var ns []string
	for n := range names {
		ns = append(ns, n)
	}
	sort.Strings(ns)
	allocPre := s.alloc
	for _, n := range ns {
		srt := names[n]
		if srt == nil {
			srt = vc.heapSorts[n]
		}
		old := vc.heapArr(s, n, srt)
		a := ms[n]
		_, inFP := fp.arrays[n]
		switch {
		case a != nil && a.whole:
			s.heap[n] = Fresh(n+".call", srt)
		case srt.Key == nil: // global value in footprint but not in modifies: unchanged (checked by the callee's frame obligation)
		case inFP:
			nw := Fresh(n+".call", srt)
			r := BoundVar("fr", SInt)
			conds := []*Term{Le(IntLit(0), r), Lt(r, allocPre)}
			if a != nil {
				for _, x := range a.refs {
					conds = append(conds, Not(Eq(r, x)))
				}
			}
			s.assume(Forall([]*Term{r}, Implies(And(conds...), Eq(Select(nw, r), Select(old, r))), []*Term{Select(nw, r)}))
			s.heap[n] = nw
		default:
			cur := old
			for _, x := range a.refs {
				cur = Store(cur, x, Fresh(n+".at", srt.Val))
			}
			nw := Fresh(n+".call", srt)
			s.assume(Eq(nw, cur))
			s.heap[n] = nw
		}
	}
	if !noAlloc {
		na := Fresh("alloc", SInt)
		s.assume(Ge(na, s.alloc))
		// objects allocated by the callee have one of the types whose fields the callee's body writes
		if fi != nil && !spec.Trusted {
			if real := vc.footprint(fi); !real.all {
				if f := allocTypesFact(real.types, s.alloc, na); f != nil {
					s.assume(f)
				}
			}
		}
		s.alloc = na
	}
	for _, n := range ns {
		vc.assumeFrame(s, n)
		if f := vc.rootFact(n, s.heap[n], s.alloc); f != True {
			s.assume(f)
		}
	}
}

// typeNameOf resolves T or pkg.T to a type name (nil if e does not denote a type).
func (env *SpecEnv) typeNameOf(e *SExpr) *types.TypeName {
	switch e.K {
	case "id":
		if _, bound := env.vars[e.Name]; bound {
			return nil
		}
		if o := env.lookupObj(e.Name); o != nil {
			if tn, ok := o.(*types.TypeName); ok {
				return tn
			}
		}
	case "sel":
		if e.X.K != "id" {
			return nil
		}
		if _, bound := env.vars[e.X.Name]; bound {
			return nil
		}
		var pkg *types.Package
		if o := env.lookupObj(e.X.Name); o != nil {
			if pn, ok := o.(*types.PkgName); ok {
				pkg = pn.Imported()
			}
		}
		if pkg == nil && env.pkg != nil {
			for _, imp := range env.pkg.Types.Imports() {
				if imp.Name() == e.X.Name {
					pkg = imp
				}
			}
		}
		if pkg != nil {
			if tn, ok := pkg.Scope().Lookup(e.Name).(*types.TypeName); ok {
				return tn
			}
		}
	}
	return nil
}
