package main

// Modifies clauses, footprints (arrays a function may write, including on fresh objects), framed havoc.

import (
	"go/ast"
	"go/types"
	"sort"
)

type allow struct {
	whole bool
	refs  []*Term
	sort  *Sort
}

type modSet map[string]*allow

func (ms modSet) get(n string, srt *Sort) *allow {
	a := ms[n]
	if a == nil {
		a = &allow{sort: srt}
		ms[n] = a
	}
	return a
}

// modSetOf evaluates a modifies clause in the pre-state env.
func (vc *VC) modSetOf(spec *FuncSpec, pre *SpecEnv) modSet {
	ms := modSet{}
	fieldOf := func(t types.Type, name string, ref *Term, whole bool, e *SExpr) {
		st, ok := isStructType(t)
		if !ok {
			pre.fail(e, "modifies: not a struct")
		}
		for i := 0; i < st.NumFields(); i++ {
			if st.Field(i).Name() == name || name == "*" {
				a := ms.get(fieldArrName(t, st.Field(i)), ArraySort(SInt, sortOf(st.Field(i).Type())))
				if whole {
					a.whole = true
				} else {
					a.refs = append(a.refs, ref)
				}
			}
		}
	}
	for _, m := range spec.Modifies {
		switch m.K {
		case "sel":
			if tn := pre.typeNameOf(m.X); tn != nil {
				fieldOf(tn.Type(), m.Name, nil, true, m)
				continue
			}
			x := pre.eval(m.X)
			p, ok := x.Ty.Underlying().(*types.Pointer)
			if !ok {
				pre.fail(m, "modifies x.f: x must be a pointer")
			}
			fieldOf(p.Elem(), m.Name, x.T, false, m)
			continue
		case "un":
			if m.Op == "*" {
				x := pre.eval(m.X)
				p, ok := x.Ty.Underlying().(*types.Pointer)
				if !ok {
					pre.fail(m, "modifies *x: x must be a pointer")
				}
				if _, ok := isStructType(p.Elem()); ok {
					fieldOf(p.Elem(), "*", x.T, false, m)
				} else {
					a := ms.get(boxArrName(p.Elem()), ArraySort(SInt, sortOf(p.Elem())))
					a.refs = append(a.refs, x.T)
				}
				continue
			}
		case "call":
			if m.X.K == "id" && m.X.Name == "contents" && len(m.Args) == 1 {
				m = m.Args[0]
			}
		case "id":
			if _, bound := pre.vars[m.Name]; !bound {
				if o := pre.lookupObj(m.Name); o != nil {
					if v, ok := o.(*types.Var); ok && v.Pkg() != nil && v.Parent() == v.Pkg().Scope() {
						ms.get(vc.globalName(v), sortOf(v.Type())).whole = true
						continue
					}
				}
			}
		}
		x := pre.eval(m)
		if x.Ty != nil {
			if mt, ok := x.Ty.Underlying().(*types.Map); ok {
				k := mapKeyName(mt)
				ks, vs := sortOf(mt.Key()), sortOf(mt.Elem())
				ms.get("MD."+k, ArraySort(SInt, ArraySort(ks, SBool))).refs = append(ms.get("MD."+k, nil).refs, x.T)
				ms.get("MV."+k, ArraySort(SInt, ArraySort(ks, vs))).refs = append(ms.get("MV."+k, nil).refs, x.T)
				ms.get("MC."+k, ArraySort(SInt, SInt)).refs = append(ms.get("MC."+k, nil).refs, x.T)
				continue
			}
		}
		pre.fail(m, "unsupported modifies target")
	}
	return ms
}

// footprint: heap arrays that the body of fi may write (on any object, including fresh ones), transitively.
type footprintT struct {
	all    bool
	arrays map[string]*Sort
}

func (vc *VC) footprint(fi *FuncInfo) *footprintT {
	if fp, ok := vc.prog.footprints[fi]; ok {
		if fp == nil {
			// recursion in progress: contribute nothing (the outer computation covers it)
			return &footprintT{arrays: map[string]*Sort{}}
		}
		return fp
	}
	vc.prog.footprints[fi] = nil
	fp := &footprintT{arrays: map[string]*Sort{}}
	if fi.Decl == nil || fi.Decl.Body == nil {
		vc.prog.footprints[fi] = fp
		return fp
	}
	// boxed analysis for the callee body
	vc.analyzeBody(fi.Decl.Body, fi.Pkg.TypesInfo, fi.Decl)
	eff := vc.effectsOf([]ast.Node{fi.Decl.Body}, fi.Pkg.TypesInfo, 0)
	if eff.all {
		fp.all = true
	}
	for n, a := range eff.arrays {
		fp.arrays[n] = a.sort
	}
	vc.prog.footprints[fi] = fp
	return fp
}

// callHavoc applies the heap effect of a contracted call: modified locations are forgotten, arrays in the
// callee's footprint keep their values only on objects allocated before the call.
func (vc *VC) callHavoc(s *State, spec *FuncSpec, fi *FuncInfo, pre *SpecEnv) {
	if spec.ModAll {
		vc.havocHeap(s, "modifies * of "+spec.Key)
		return
	}
	ms := vc.modSetOf(spec, pre)
	var fp *footprintT
	if fi != nil && !spec.Trusted {
		fp = vc.footprint(fi)
	} else {
		fp = &footprintT{arrays: map[string]*Sort{}}
	}
	names := map[string]*Sort{}
	for n, a := range ms {
		names[n] = a.sort
	}
	for n, srt := range fp.arrays {
		names[n] = srt
	}
	var ns []string
	for n := range names {
		ns = append(ns, n)
	}
	sort.Strings(ns)
	allocPre := s.alloc
	for _, n := range ns {
		srt := names[n]
		if srt == nil {
			srt = vc.heapSorts[n]
		}
		old := vc.heapArr(s, n, srt)
		a := ms[n]
		_, inFP := fp.arrays[n]
		switch {
		case a != nil && a.whole:
			s.heap[n] = Fresh(n+".call", srt)
		case srt.Key == nil: // global value in footprint but not in modifies: unchanged (checked by the callee's frame obligation)
		case inFP:
			nw := Fresh(n+".call", srt)
			r := BoundVar("fr", SInt)
			conds := []*Term{Le(IntLit(0), r), Lt(r, allocPre)}
			if a != nil {
				for _, x := range a.refs {
					conds = append(conds, Not(Eq(r, x)))
				}
			}
			s.assume(Forall([]*Term{r}, Implies(And(conds...), Eq(Select(nw, r), Select(old, r))), []*Term{Select(nw, r)}))
			s.heap[n] = nw
		default:
			cur := old
			for _, x := range a.refs {
				cur = Store(cur, x, Fresh(n+".at", srt.Val))
			}
			nw := Fresh(n+".call", srt)
			s.assume(Eq(nw, cur))
			s.heap[n] = nw
		}
	}
	na := Fresh("alloc", SInt)
	s.assume(Ge(na, s.alloc))
	s.alloc = na
}

// checkFrame: every heap location not covered by the modifies clause is unchanged for objects allocated at entry.
func (vc *VC) checkFrame(s *State, spec *FuncSpec, post *SpecEnv) {
	if spec.ModAll {
		return
	}
	pos := vc.fn.Decl.Pos()
	if s.epoch != "0" {
		vc.obligeKeep(s, "frame", "heap", "function calls code that may modify the whole heap but does not declare 'modifies *'", pos, False)
		return
	}
	pre := post.inState(vc.entry)
	pre.old = nil
	ms := vc.modSetOf(spec, pre)
	var names []string
	for n := range s.heap {
		names = append(names, n)
	}
	sort.Strings(names)
	alloc0 := vc.entry.alloc
	for _, name := range names {
		cur := s.heap[name]
		old := vc.heapArr(vc.entry, name, vc.heapSorts[name])
		if cur == old {
			continue
		}
		a := ms[name]
		if a != nil && a.whole {
			continue
		}
		if cur.Sort.Key == nil || len(name) > 2 && name[:2] == "G." {
			vc.obligeKeep(s, "frame", name, "global "+name+" is not in the modifies clause and must be unchanged", pos, Eq(cur, old))
			continue
		}
		r := BoundVar("fr", SInt)
		conds := []*Term{Le(IntLit(0), r), Lt(r, alloc0)}
		if a != nil {
			for _, x := range a.refs {
				conds = append(conds, Not(Eq(r, x)))
			}
		}
		goal := Forall([]*Term{r}, Implies(And(conds...), Eq(Select(cur, r), Select(old, r))))
		vc.obligeKeep(s, "frame", name, "heap array "+name+" unchanged outside the modifies clause (objects allocated at entry)", pos, goal)
	}
}

// typeNameOf resolves T or pkg.T to a type name (nil if e does not denote a type).
func (env *SpecEnv) typeNameOf(e *SExpr) *types.TypeName {
	switch e.K {
	case "id":
		if _, bound := env.vars[e.Name]; bound {
			return nil
		}
		if o := env.lookupObj(e.Name); o != nil {
			if tn, ok := o.(*types.TypeName); ok {
				return tn
			}
		}
	case "sel":
		if e.X.K != "id" {
			return nil
		}
		if _, bound := env.vars[e.X.Name]; bound {
			return nil
		}
		var pkg *types.Package
		if o := env.lookupObj(e.X.Name); o != nil {
			if pn, ok := o.(*types.PkgName); ok {
				pkg = pn.Imported()
			}
		}
		if pkg == nil && env.pkg != nil {
			for _, imp := range env.pkg.Types.Imports() {
				if imp.Name() == e.X.Name {
					pkg = imp
				}
			}
		}
		if pkg != nil {
			if tn, ok := pkg.Scope().Lookup(e.Name).(*types.TypeName); ok {
				return tn
			}
		}
	}
	return nil
}
