package main

// Sequential model of the concurrency primitives used by asyncPostProcess.OnFinished (property C19, level "other"):
// channels and WaitGroups are objects with ghost counters; select is a nondeterministic choice over its cases;
// a go statement counts a spawn and the goroutine body is verified as a separate procedure ("worker") whose exit
// states must satisfy the contract's "worker ensures" clauses. No interleaving semantics is modelled: the
// obligations are the sequential facts from which DESIGN.md 3.C19 composes the schedule-independent argument.

import (
	"fmt"
	"go/ast"
	"go/token"
	"go/types"
	"strings"
)

func (vc *VC) ghostArr(s *State, name string) *Term {
	return vc.heapArr(s, "GH."+name, ArraySort(SInt, SInt))
}

func (vc *VC) ghostInc(s *State, name string, ref *Term, by *Term) {
	arr := vc.ghostArr(s, name)
	n := Fresh("GH."+name, arr.Sort)
	s.assume(Eq(n, Store(arr, ref, Add(Select(arr, ref), by))))
	s.heap["GH."+name] = n
}

func (vc *VC) ghostSet(s *State, name string, ref *Term, v *Term) {
	arr := vc.ghostArr(s, name)
	n := Fresh("GH."+name, arr.Sort)
	s.assume(Eq(n, Store(arr, ref, v)))
	s.heap["GH."+name] = n
}

func (vc *VC) ghostGet(s *State, name string, ref *Term) *Term {
	return Select(vc.ghostArr(s, name), ref)
}

func boolGhost(s *State, name string) *Term {
	if t, ok := s.ghost[name]; ok {
		return t
	}
	return False
}

// execSend: ch <- v
func (vc *VC) execSend(s *State, x *ast.SendStmt) {
	ch := vc.eval(s, x.Chan)
	v := vc.eval(s, x.Value)
	vc.nonNilSoft(s, ch)
	vc.ghostInc(s, "sent", ch, IntLit(1))
	// remember whether every value sent so far was non-nil (for channels of interface/pointer type)
	if v.Sort == SInt {
		allNN := vc.ghostGet(s, "sentNonNil", ch)
		vc.ghostSet(s, "sentNonNil", ch, Ite(And(Eq(allNN, IntLit(0)), Not(Eq(v, IntLit(0)))), IntLit(0), IntLit(1)))
	}
}

func (vc *VC) nonNilSoft(s *State, ch *Term) {}

// evalRecv: <-ch ; the received value is unconstrained except that values of a channel whose senders (workers)
// are contracted to send only non-nil values are non-nil ("worker ensures sentNonNil" establishes it).
func (vc *VC) evalRecv(s *State, x *ast.UnaryExpr) *Term {
	ch := vc.eval(s, x.X)
	vc.ghostInc(s, "recvd", ch, IntLit(1))
	t := vc.typeOf(x)
	if tup, ok := t.(*types.Tuple); ok {
		t = tup.At(0).Type()
	}
	v := vc.loaded(s, t, Fresh("recv", sortOf(t)), "recv")
	if v.Sort == SInt && vc.fn.Spec != nil && vc.fn.Spec.ChanNonNil {
		s.assume(Not(Eq(v, IntLit(0))))
		vc.prog.Assumed["values received from a channel are values sent by the workers of this call, which send only non-nil values (worker obligation sentNonNil); channel FIFO/no-invention axiom"] = true
	}
	return v
}

func (vc *VC) execSelect(s *State, x *ast.SelectStmt, label string) {
	fr := vc.frame()
	tgt := &jumpTarget{label: label}
	fr.targets = append(fr.targets, tgt)
	var ends []*State
	hasRecv := false
	for _, c := range x.Body.List {
		cc := c.(*ast.CommClause)
		if cc.Comm != nil {
			if _, isSend := cc.Comm.(*ast.SendStmt); !isSend {
				hasRecv = true
			}
		}
	}
	for _, c := range x.Body.List {
		cc := c.(*ast.CommClause)
		b := s.clone()
		if cc.Comm == nil {
			if hasRecv {
				b.ghost["$defaultTaken"] = True
			}
		} else {
			vc.execStmt(b, cc.Comm, "")
		}
		vc.execBlock(b, cc.Body)
		if !b.dead {
			ends = append(ends, b)
		}
	}
	fr.targets = fr.targets[:len(fr.targets)-1]
	ends = append(ends, tgt.breaks...)
	vc.join(s, ends...)
}

// execGo: go func(params){...}(args): counts the spawn and verifies the literal as a worker procedure.
func (vc *VC) execGo(s *State, x *ast.GoStmt) {
	lit, ok := ast.Unparen(x.Call.Fun).(*ast.FuncLit)
	if !ok {
		vc.unsupported(x, "go statement with a non-literal function")
	}
	info := vc.frame().info
	sig := info.TypeOf(lit).(*types.Signature)
	args := vc.evalArgs(s, x.Call, sig)
	vc.siteClauses(s, "go", x)
	// worker: executed from the current state with the worker-local ghost counters reset
	vc.goCount++
	w := s.clone()
	for _, g := range []string{"sent", "recvd", "wgdone", "wgadd", "fcalls", "sentNonNil"} {
		name := "GH." + g
		w.heap[name] = Fresh(name+".w", ArraySort(SInt, SInt))
		vc.heapSorts[name] = ArraySort(SInt, SInt)
		z := BoundVar("gz", SInt)
		w.assume(Forall([]*Term{z}, Eq(Select(w.heap[name], z), IntLit(0)), []*Term{Select(w.heap[name], z)}))
	}
	w.ghost["$inWorker"] = True
	if _, ok := w.ghost["$fcalls"]; ok {
		w.ghost["$fcalls"] = IntLit(0) // dynamic calls are counted per goroutine
	}
	for k := range w.ghost {
		if strings.HasPrefix(k, "$call.") {
			delete(w.ghost, k) // call records are per procedure
		}
	}
	vc.initCallRecords(w, lit.Body, info)
	savedPrefix := vc.prefix
	vc.prefix = fmt.Sprintf("worker%d>", vc.goCount)
	wasSync := vc.workerMode
	vc.workerMode = true
	// captured variables must not be assigned by the worker (interference freedom)
	assigned := map[types.Object]bool{}
	ast.Inspect(lit.Body, func(n ast.Node) bool {
		if as, ok := n.(*ast.AssignStmt); ok && as.Tok != token.DEFINE {
			for _, l := range as.Lhs {
				if id, ok := l.(*ast.Ident); ok {
					if o := info.ObjectOf(id); o != nil {
						assigned[o] = true
					}
				}
			}
		}
		return true
	})
	for o := range assigned {
		v, isVar := o.(*types.Var)
		if !isVar {
			continue
		}
		// declared outside the literal?
		if v.Pos() < lit.Pos() || v.Pos() > lit.End() {
			vc.oblige(w, "worker", "captured:"+v.Name(), "the goroutine body assigns the captured variable "+v.Name(), x.Pos(), False)
		}
	}
	fr := &Frame{fn: vc.frame().fn, sig: sig, info: info, isLit: true, pkg: vc.frame().pkg}
	i := 0
	for _, f := range lit.Type.Params.List {
		for _, nm := range f.Names {
			if obj := info.Defs[nm]; obj != nil {
				vc.bindParam(w, obj.(*types.Var), args[i])
			}
			i++
		}
	}
	// run the body; collect normal and panic exits (panics of the worker do not propagate to the dispatcher)
	parentPanics := len(vc.frame().panics)
	vc.runWorker(w, fr, lit.Body, sig, x)
	vc.frame().panics = vc.frame().panics[:parentPanics]
	vc.workerMode = wasSync
	vc.prefix = savedPrefix
	// dispatcher side effect
	s.ghost["$spawned"] = Add(ghostInt(s, "$spawned"), IntLit(1))
	s.ghost["$quiet"] = False
	vc.ghostTypes["$spawned"] = types.Typ[types.Int]
}

func ghostInt(s *State, name string) *Term {
	if t, ok := s.ghost[name]; ok {
		return t
	}
	return IntLit(0)
}

// runWorker executes a goroutine body and checks the "worker ensures" clauses on every exit (normal or panic,
// after deferred calls).
func (vc *VC) runWorker(w *State, fr *Frame, body *ast.BlockStmt, sig *types.Signature, at ast.Node) {
	vc.frames = append(vc.frames, fr)
	vc.inlineDepth++
	st := w.clone()
	end := vc.execBlock(st, body.List)
	if end != nil && !end.dead {
		end.result = []*Term{}
		fr.rets = append(fr.rets, end)
	}
	ret := vc.mergeStates(fr.rets)
	pan := vc.mergeStates(fr.panics)
	if len(fr.defers) > 0 {
		fr.runningDefers = true
		if ret != nil {
			fr.recoverV = nil
			ret = vc.runDefers(ret, fr, sig)
		}
		if pan != nil {
			fr.recoverV = pan.panicV
			pan = vc.runDefers(pan, fr, sig)
		}
		fr.runningDefers = false
	}
	vc.frames = vc.frames[:len(vc.frames)-1]
	vc.inlineDepth--
	spec := vc.fn.Spec
	check := func(s *State, kind string) {
		if s == nil || spec == nil {
			return
		}
		// old(e) in a worker clause: e at the start of the goroutine
		env := &SpecEnv{vc: vc, st: s, old: w, vars: map[string]TV{}, pkg: vc.fn.Pkg, what: "worker clause of " + shortKey(vc.fn.Key)}
		env.scope = vc.fn.Pkg.Types.Scope().Innermost(body.Lbrace + 1)
		env.pos = body.Rbrace
		for k, t := range s.ghost {
			env.vars[k] = TV{t, vc.ghostTypes[k]}
		}
		env.vars["$panic"] = TV{BoolLit(kind == "panic"), types.Typ[types.Bool]}
		for i, e := range spec.WorkerEnsures {
			vc.obligeKeep(s, "worker", fmt.Sprintf("%s:%d", kind, i+1), "goroutine body, "+kind+" exit: "+e.Src, at.Pos(), env.evalBool(e))
		}
	}
	check(ret, "normal")
	check(pan, "panic")
}

// WaitGroup models (receiver is the address of the WaitGroup variable).
func init() {
	stdModels["sync.WaitGroup.Add"] = func(vc *VC, s *State, call *ast.CallExpr, args []*Term) []*Term {
		recv := vc.lastRecv
		vc.ghostInc(s, "wgadd", recv, args[0])
		s.ghost["$quiet"] = False
		return nil
	}
	stdModels["sync.WaitGroup.Done"] = func(vc *VC, s *State, call *ast.CallExpr, args []*Term) []*Term {
		vc.ghostInc(s, "wgdone", vc.lastRecv, IntLit(1))
		return nil
	}
	stdModels["sync.WaitGroup.Wait"] = func(vc *VC, s *State, call *ast.CallExpr, args []*Term) []*Term {
		vc.prog.Assumed["sync.WaitGroup.Wait returns only after every Add-ed goroutine has called Done; everything sequenced before that Done happens-before the return (Go memory model)"] = true
		s.ghost["$quiet"] = True
		return nil
	}
}
