package main

// SMT-LIB emission and solver racing.

import (
	"bytes"
	"context"
	"fmt"
	"os"
	"os/exec"
	"path/filepath"
	"runtime"
	"strings"
	"sync"
	"time"
)

type SolverCfg struct {
	Name string
	Cmd  []string
}

var solvers = []SolverCfg{
	{"z3-new-5.1.0", []string{"z3-new", "-smt2"}},
	{"z3-4.8.12", []string{"z3", "-smt2"}},
	{"cvc5-1.0.3", []string{"cvc5", "--lang=smt2"}},
}

// groundOnly: drop every quantified assumption (used to find candidate counterexamples quickly; a candidate is
// only reported after it has been confirmed by running the real code).
var groundOnly bool

func hasQuant(t *Term) bool {
	if t.Op == "forall" || t.Op == "exists" {
		return true
	}
	for _, a := range t.Args {
		if hasQuant(a) {
			return true
		}
	}
	return false
}

func (prog *Program) buildSMT(o *Obligation, axioms []*Term, wantModel bool) string {
	if o.Raw != "" {
		raw := o.Raw
		if wantModel {
			raw = "(set-option :produce-models true)\n" + strings.Replace(raw, "(check-sat)", "(check-sat)\n(get-model)", 1)
		}
		return "; obligation " + o.Name + "\n; " + strings.ReplaceAll(o.Desc, "\n", " ") + "\n" + raw
	}
	c := newCollector()
	all := append([]*Term{}, o.Assume...)
	all = append(all, o.Goal)
	all = append(all, axioms...)
	for _, t := range all {
		c.term(t)
	}
	// background axioms depend on which symbols are used; iterate to a fixpoint (they may introduce symbols)
	var bg []*Term
	for iter := 0; iter < 3; iter++ {
		bg = append(strAxioms(c.decls), shiftAxioms(c.decls)...)
		bg = append(bg, usgAxioms(c.decls)...)
		n := len(c.decls)
		for _, t := range bg {
			c.term(t)
		}
		if len(c.decls) == n {
			break
		}
	}
	var b strings.Builder
	b.WriteString("; obligation " + o.Name + "\n; " + strings.ReplaceAll(o.Desc, "\n", " ") + "\n; " + o.Pos + "\n")
	if wantModel {
		b.WriteString("(set-option :produce-models true)\n")
	}
	b.WriteString("(set-logic ALL)\n")
	c.header(&b)
	for _, t := range bg {
		if groundOnly && hasQuant(t) {
			continue
		}
		b.WriteString("(assert " + t.String() + ")\n")
	}
	for _, t := range axioms {
		if groundOnly && hasQuant(t) {
			continue
		}
		b.WriteString("(assert " + t.String() + ")\n")
	}
	o.Joins = nil
	for _, t := range o.Assume {
		if groundOnly && hasQuant(t) {
			continue
		}
		if j := joinVariants(t); j != nil {
			o.Joins = append(o.Joins, j)
		}
		b.WriteString("(assert " + t.String() + ")\n")
	}
	if o.Cover {
		b.WriteString("; cover (vacuity check): the assumptions must not be refutable; any answer but unsat passes\n")
	} else {
		b.WriteString("(assert (not " + o.Goal.String() + "))\n")
	}
	b.WriteString("(check-sat)\n")
	if wantModel {
		b.WriteString("(get-model)\n")
	}
	return b.String()
}

func runSolver(ctx context.Context, sc SolverCfg, file string, timeout time.Duration) (status string, out string, secs float64) {
	args := append([]string{}, sc.Cmd[1:]...)
	switch {
	case strings.HasPrefix(sc.Name, "z3"):
		args = append(args, fmt.Sprintf("-T:%d", int(timeout.Seconds())+1))
	case strings.HasPrefix(sc.Name, "cvc5"):
		args = append(args, fmt.Sprintf("--tlimit=%d", timeout.Milliseconds()))
	}
	args = append(args, file)
	cctx, cancel := context.WithTimeout(ctx, timeout+2*time.Second)
	defer cancel()
	cmd := exec.CommandContext(cctx, sc.Cmd[0], args...)
	var buf bytes.Buffer
	cmd.Stdout = &buf
	cmd.Stderr = &buf
	t0 := time.Now()
	_ = cmd.Run()
	secs = time.Since(t0).Seconds()
	out = buf.String()
	first := strings.TrimSpace(strings.SplitN(out, "\n", 2)[0])
	switch first {
	case "unsat", "sat", "unknown":
		status = first
	case "timeout":
		status = "timeout"
	default:
		if cctx.Err() != nil {
			status = "timeout"
		} else {
			status = "error"
		}
	}
	return
}

type solveOpts struct {
	timeout time.Duration
	dir     string
	jobs    int
	cross   bool // thorough: also require no solver says sat
	noRetry bool
}

func (prog *Program) discharge(obls []*Obligation, axioms []*Term, opt solveOpts) {
	os.MkdirAll(opt.dir, 0o755)
	var wg sync.WaitGroup
	sem := make(chan struct{}, opt.jobs)
	// SMT text must be generated sequentially (term tables are not thread safe)
	files := make([]string, len(obls))
	for i, o := range obls {
		txt := prog.buildSMT(o, axioms, false)
		o.SMT = txt
		f := filepath.Join(opt.dir, fmt.Sprintf("o%05d.smt2", i))
		os.WriteFile(f, []byte(txt), 0o644)
		files[i] = f
	}
	for i, o := range obls {
		wg.Add(1)
		go func(i int, o *Obligation) {
			defer wg.Done()
			sem <- struct{}{}
			defer func() { <-sem }()
			solveSplit(o, files[i], opt, 0)
		}(i, o)
	}
	wg.Wait()
	// Second chance: an obligation without an answer may only have lost the race for the machine (16 solver
	// processes at a time, three per obligation in the race). Such obligations are run again, four at a time, with
	// three times the budget, so that a loaded or slower machine does not turn a provable obligation into an alarm.
	var again []int
	for i, o := range obls {
		if !o.Cover && !o.NoRetry && o.Raw == "" && (o.Status == "timeout" || o.Status == "unknown") {
			again = append(again, i)
		}
	}
	if len(again) == 0 || opt.noRetry {
		return
	}
	opt2 := opt
	opt2.timeout = 3 * opt.timeout
	sem2 := make(chan struct{}, 4)
	for _, i := range again {
		wg.Add(1)
		go func(i int, o *Obligation) {
			defer wg.Done()
			sem2 <- struct{}{}
			defer func() { <-sem2 }()
			first := *o
			solveSplit(o, files[i], opt2, 0)
			o.Seconds += first.Seconds
			o.Output = first.Output + "; second chance: " + o.Output
		}(i, obls[i])
	}
	wg.Wait()
}

func solveOne(o *Obligation, file string, opt solveOpts) {
	solveStages(context.Background(), o, file, opt, 0)
}

// solveStages: stage 1 = primary solver with a short budget, stage 2 = race of all solvers. which: 0 both, 1 or 2 one of them.
func solveStages(ctx context.Context, o *Obligation, file string, opt solveOpts, which int) {
	if o.Cover {
		// vacuity check: run the two z3 versions briefly; "unsat" means the assumptions are contradictory
		total := 0.0
		var outs []string
		for _, sc := range solvers[:1] {
			st, out, secs := runSolver(ctx, sc, file, 3*time.Second)
			total += secs
			outs = append(outs, sc.Name+": "+firstLine(out))
			if st == "unsat" {
				o.Status, o.Solver, o.Seconds, o.Output = "unsat", sc.Name, total, strings.Join(outs, "; ")
				return
			}
			if st == "sat" {
				o.Status, o.Solver, o.Seconds, o.Output = "sat", sc.Name, total, strings.Join(outs, "; ")
				return
			}
		}
		o.Status, o.Solver, o.Seconds, o.Output = "not-refuted", "", total, strings.Join(outs, "; ")
		return
	}
	want := "unsat"
	if o.Cover {
		want = "sat"
	}
	total := 0.0
	var outs []string
	// stage 1: primary solver with a short budget; stage 2: race all
	if which != 2 {
		st, out, secs := runSolver(ctx, solvers[0], file, minDur(opt.timeout, 8*time.Second))
		total += secs
		outs = append(outs, solvers[0].Name+": "+firstLine(out))
		if st == want {
			o.Status, o.Solver, o.Seconds, o.Output = st, solvers[0].Name, total, strings.Join(outs, "; ")
			return
		}
		if st == "sat" || st == "unsat" {
			// definite opposite answer from the primary solver
			o.Status, o.Solver, o.Seconds, o.Output = st, solvers[0].Name, total, strings.Join(outs, "; ")
			return
		}
		if which == 1 {
			o.Status, o.Solver, o.Seconds, o.Output = st, "", total, strings.Join(outs, "; ")
			if st != "timeout" {
				o.Status = "unknown"
			}
			return
		}
	}
	type res struct {
		sc   SolverCfg
		st   string
		out  string
		secs float64
	}
	ch := make(chan res, len(solvers))
	cctx, cancel := context.WithCancel(ctx)
	defer cancel()
	for _, sc := range solvers {
		go func(sc SolverCfg) {
			st, out, secs := runSolver(cctx, sc, file, opt.timeout)
			ch <- res{sc, st, out, secs}
		}(sc)
	}
	final := "unknown"
	solver := ""
	for range solvers {
		r := <-ch
		outs = append(outs, r.sc.Name+": "+firstLine(r.out))
		if r.secs > 0 {
			total += r.secs
		}
		if r.st == want {
			final, solver = r.st, r.sc.Name
			break
		}
		if (r.st == "sat" || r.st == "unsat") && final == "unknown" {
			if o.Cover && strings.HasPrefix(r.sc.Name, "cvc5") {
				continue
			}
			final, solver = r.st, r.sc.Name
			// a definite opposite answer: keep waiting briefly? accept it.
			break
		}
		if r.st == "timeout" && final == "unknown" {
			final = "timeout"
		}
	}
	o.Status, o.Solver, o.Seconds, o.Output = final, solver, total, strings.Join(outs, "; ")
}

func firstLine(s string) string {
	s = strings.TrimSpace(s)
	if i := strings.Index(s, "\n"); i >= 0 {
		s = s[:i]
	}
	if len(s) > 200 {
		s = s[:200]
	}
	return s
}

func minDur(a, b time.Duration) time.Duration {
	if a < b {
		return a
	}
	return b
}

// getModel re-runs a failed obligation asking for a model (z3-new), returning the raw model text.
func (prog *Program) getModel(o *Obligation, axioms []*Term, dir string, timeout time.Duration) string {
	txt := prog.buildSMT(o, axioms, true)
	f := filepath.Join(dir, "model.smt2")
	os.WriteFile(f, []byte(txt), 0o644)
	_, out, _ := runSolver(context.Background(), solvers[0], f, timeout)
	if len(out) > 60000 {
		out = out[:60000] + "\n...truncated"
	}
	return out
}

// joinVariants recognises the fact a control-flow join leaves in the path condition, "(or g1 .. gn)" (possibly under a
// condition c when the join is nested in a branch), and returns the case split it licenses: one assertion per case,
// together exhaustive.
func joinVariants(t *Term) []string {
	isG := func(x *Term) bool { return x.D != nil && len(x.Args) == 0 && strings.HasPrefix(x.D.Name, "g@") }
	var cond *Term
	if t.Op == "=>" && len(t.Args) == 2 {
		cond, t = t.Args[0], t.Args[1]
	}
	if t.Op != "or" || len(t.Args) < 2 {
		return nil
	}
	for _, a := range t.Args {
		if !isG(a) {
			return nil
		}
	}
	var out []string
	if cond != nil {
		out = append(out, "(not "+cond.String()+")")
	}
	for _, a := range t.Args {
		out = append(out, a.String())
	}
	return out
}

// solveSplit: stage 1; when it gives no answer and the path condition contains control-flow joins, the solver race and
// a case split over the most recent join run side by side and the first proof wins (each case is the same query plus
// one selector; the cases are exhaustive because the disjunction of the selectors is itself an assumption). Up to three
// nested splits.
func solveSplit(o *Obligation, file string, opt solveOpts, depth int) {
	solveSplitCtx(context.Background(), o, file, opt, depth)
}

func solveSplitCtx(ctx context.Context, o *Obligation, file string, opt solveOpts, depth int) {
	if o.Cover || o.Raw != "" || depth >= 3 || len(o.Joins) <= depth {
		solveStages(ctx, o, file, opt, 0)
		return
	}
	solveStages(ctx, o, file, opt, 1)
	if o.Status == "unsat" || o.Status == "sat" {
		return
	}
	txt, err := os.ReadFile(file)
	if err != nil {
		solveStages(ctx, o, file, opt, 2)
		return
	}
	cctx, cancel := context.WithCancel(ctx)
	defer cancel()
	race := &Obligation{Name: o.Name}
	done := make(chan string, 2)
	go func() {
		solveStages(cctx, race, file, opt, 2)
		done <- "race"
	}()
	variants := o.Joins[len(o.Joins)-1-depth]
	subs := make([]*Obligation, len(variants))
	splitStatus := ""
	go func() {
		var wg sync.WaitGroup
		for i, v := range variants {
			sub := &Obligation{Name: o.Name, Joins: o.Joins}
			subs[i] = sub
			f := fmt.Sprintf("%s.c%d", strings.TrimSuffix(file, ".smt2"), i) + ".smt2"
			os.WriteFile(f, []byte(strings.Replace(string(txt), "(check-sat)", "(assert "+v+")\n(check-sat)", 1)), 0o644)
			wg.Add(1)
			go func(sub *Obligation, f string) {
				defer wg.Done()
				solveSplitCtx(cctx, sub, f, opt, depth+1)
			}(sub, f)
		}
		wg.Wait()
		st := "unsat"
		for _, sub := range subs {
			switch {
			case sub.Status == "sat":
				st = "sat"
			case sub.Status != "unsat" && st == "unsat":
				st = sub.Status
			}
		}
		splitStatus = st
		done <- "split"
	}()
	first := <-done
	decided := func(w string) bool {
		if w == "race" {
			return race.Status == "unsat" || race.Status == "sat"
		}
		return splitStatus == "unsat"
	}
	who := first
	if !decided(first) {
		second := <-done
		if decided(second) {
			who = second
		} else {
			who = "race"
		}
	}
	cancel()
	if who == "race" {
		o.Status, o.Solver = race.Status, race.Solver
		o.Seconds += race.Seconds
		o.Output += "; " + race.Output
		return
	}
	for _, sub := range subs {
		o.Seconds += sub.Seconds
	}
	o.Status, o.Solver = "unsat", "case-split("+subs[len(subs)-1].Solver+")"
	o.Output += fmt.Sprintf("; case split over the %d cases of a control-flow join: all unsat", len(variants))
}

// solverJobs: number of solver processes in flight = CPUs this process may run on (at most 16, at least 2).
func solverJobs() int {
	n := runtime.NumCPU()
	if n > 16 {
		n = 16
	}
	if n < 2 {
		n = 2
	}
	return n
}
