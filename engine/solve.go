package main

// SMT-LIB emission and solver racing.

import (
	"bytes"
	"context"
	"fmt"
	"os"
	"os/exec"
	"path/filepath"
	"runtime"
	"strings"
	"sync"
	"time"
)

type SolverCfg struct {
	Name string
	Cmd  []string
}

var solvers = []SolverCfg{
	{"z3-new-5.1.0", []string{"z3-new", "-smt2"}},
	{"z3-4.8.12", []string{"z3", "-smt2"}},
	{"cvc5-1.0.3", []string{"cvc5", "--lang=smt2"}},
	// the same solver with other random seeds: quantifier instantiation order is seed dependent, and an obligation the
	// default seed does not decide is often decided at once by another one (race only, never stage 1)
	{"z3-new-5.1.0/seed2", []string{"z3-new", "-smt2", "smt.random_seed=2", "sat.random_seed=2"}},
	{"z3-new-5.1.0/seed7", []string{"z3-new", "-smt2", "smt.random_seed=7", "sat.random_seed=7"}},
}

// groundOnly: drop every quantified assumption (used to find candidate counterexamples quickly; a candidate is
// only reported after it has been confirmed by running the real code).
var groundOnly bool

func hasQuant(t *Term) bool {
	if t.Op == "forall" || t.Op == "exists" {
		return true
	}
	for _, a := range t.Args {
		if hasQuant(a) {
			return true
		}
	}
	return false
}

func (prog *Program) buildSMT(o *Obligation, axioms []*Term, wantModel bool) string {
	if o.Raw != "" {
		raw := o.Raw
		if wantModel {
			raw = "(set-option :produce-models true)\n" + strings.Replace(raw, "(check-sat)", "(check-sat)\n(get-model)", 1)
		}
		return "; obligation " + o.Name + "\n; " + strings.ReplaceAll(o.Desc, "\n", " ") + "\n" + raw
	}
	c := newCollector()
	all := append([]*Term{}, o.Assume...)
	all = append(all, o.Goal)
	all = append(all, axioms...)
	for _, t := range all {
		c.term(t)
	}
	// background axioms depend on which symbols are used; iterate to a fixpoint (they may introduce symbols)
	var bg []*Term
	for iter := 0; iter < 3; iter++ {
		bg = append(strAxioms(c.decls), shiftAxioms(c.decls)...)
		bg = append(bg, usgAxioms(c.decls)...)
		bg = append(bg, ghostPlainAxioms(c.decls)...)
		for _, gb := range ghostBodies(c.decls) {
			c.term(gb)
		}
		n := len(c.decls)
		for _, t := range bg {
			c.term(t)
		}
		if len(c.decls) == n {
			break
		}
	}
	var b strings.Builder
	b.WriteString("; obligation " + o.Name + "\n; " + strings.ReplaceAll(o.Desc, "\n", " ") + "\n; " + o.Pos + "\n")
	if wantModel {
		b.WriteString("(set-option :produce-models true)\n")
	}
	b.WriteString("(set-logic ALL)\n")
	c.header(&b)
	for _, t := range bg {
		if groundOnly && hasQuant(t) {
			continue
		}
		b.WriteString("(assert " + t.String() + ")\n")
	}
	for _, t := range axioms {
		if groundOnly && hasQuant(t) {
			continue
		}
		b.WriteString("(assert " + t.String() + ")\n")
	}
	o.Joins = nil
	for _, t := range o.Assume {
		if groundOnly && hasQuant(t) {
			continue
		}
		if j := joinVariants(t); j != nil {
			o.Joins = append(o.Joins, j)
		}
		b.WriteString("(assert " + t.String() + ")\n")
	}
	if o.Cover {
		b.WriteString("; cover (vacuity check): the assumptions must not be refutable; any answer but unsat passes\n")
	} else {
		b.WriteString("(assert (not " + o.Goal.String() + "))\n")
	}
	b.WriteString("(check-sat)\n")
	if wantModel {
		b.WriteString("(get-model)\n")
	}
	return b.String()
}

func runSolver(ctx context.Context, sc SolverCfg, file string, timeout time.Duration) (status string, out string, secs float64) {
	args := append([]string{}, sc.Cmd[1:]...)
	switch {
	case strings.HasPrefix(sc.Name, "z3"):
		args = append(args, fmt.Sprintf("-T:%d", int(timeout.Seconds())+1))
	case strings.HasPrefix(sc.Name, "cvc5"):
		args = append(args, fmt.Sprintf("--tlimit=%d", timeout.Milliseconds()))
	}
	args = append(args, file)
	cctx, cancel := context.WithTimeout(ctx, timeout+2*time.Second)
	defer cancel()
	cmd := exec.CommandContext(cctx, sc.Cmd[0], args...)
	var buf bytes.Buffer
	cmd.Stdout = &buf
	cmd.Stderr = &buf
	t0 := time.Now()
	_ = cmd.Run()
	secs = time.Since(t0).Seconds()
	out = buf.String()
	first := strings.TrimSpace(strings.SplitN(out, "\n", 2)[0])
	switch first {
	case "unsat", "sat", "unknown":
		status = first
	case "timeout":
		status = "timeout"
	default:
		if cctx.Err() != nil {
			status = "timeout"
		} else {
			status = "error"
		}
	}
	return
}

type solveOpts struct {
	timeout time.Duration
	dir     string
	jobs    int
	cross   bool // thorough: also require no solver says sat
	noRetry bool
}

func (prog *Program) discharge(obls []*Obligation, axioms []*Term, opt solveOpts) {
	os.MkdirAll(opt.dir, 0o755)
	var wg sync.WaitGroup
	sem := make(chan struct{}, opt.jobs)
	// SMT text must be generated sequentially (term tables are not thread safe)
	files := make([]string, len(obls))
	for i, o := range obls {
		txt := prog.buildSMT(o, axioms, false)
		o.SMT = txt
		f := filepath.Join(opt.dir, fmt.Sprintf("o%05d.smt2", i))
		os.WriteFile(f, []byte(txt), 0o644)
		files[i] = f
	}
	for i, o := range obls {
		wg.Add(1)
		go func(i int, o *Obligation) {
			defer wg.Done()
			sem <- struct{}{}
			defer func() { <-sem }()
			if o.NoRetry {
				// listed open finding, expected to fail: a short budget, no case split
				short := opt
				short.timeout = minDur(opt.timeout, 10*time.Second)
				solveOne(o, files[i], short)
				return
			}
			solveSplit(o, files[i], opt, 0)
		}(i, o)
	}
	wg.Wait()
	// Second chance: an obligation without an answer may only have lost the race for the machine (16 solver
	// processes at a time, three per obligation in the race). Such obligations are run again, four at a time, with
	// three times the budget, so that a loaded or slower machine does not turn a provable obligation into an alarm.
	var again []int
	for i, o := range obls {
		if !o.Cover && !o.NoRetry && o.Raw == "" && (o.Status == "timeout" || o.Status == "unknown") {
			again = append(again, i)
		}
	}
	if len(again) == 0 || opt.noRetry {
		return
	}
	opt2 := opt
	opt2.timeout = 3 * opt.timeout
	sem2 := make(chan struct{}, 4)
	for _, i := range again {
		wg.Add(1)
		go func(i int, o *Obligation) {
			defer wg.Done()
			sem2 <- struct{}{}
			defer func() { <-sem2 }()
			first := *o
			solveSplit(o, files[i], opt2, 0)
			o.Seconds += first.Seconds
			o.Output = first.Output + "; second chance: " + o.Output
		}(i, obls[i])
	}
	wg.Wait()
}

func solveOne(o *Obligation, file string, opt solveOpts) {
	solvePortfolio(context.Background(), o, file, opt, 0, false)
}

// solveSplit: the full strategy (portfolio plus case splits over control-flow joins).
func solveSplit(o *Obligation, file string, opt solveOpts, depth int) {
	solvePortfolio(context.Background(), o, file, opt, depth, true)
}

// stagger: when each member of the portfolio starts. Most obligations are decided by the first within a second or
// two; the others are started only for obligations that are still open, so the easy ones cost one process.
var stagger = []time.Duration{0, 5 * time.Second, 8 * time.Second, 8 * time.Second, 8 * time.Second}

// portfolioOrder: indices into solvers in starting order: z3-new, z3-new with another seed, then the rest.
var portfolioOrder = []int{0, 3, 4, 1, 2}

// solvePortfolio decides one obligation: a staggered portfolio of solver configurations and, when the path condition
// contains control-flow joins and allowSplit is set, a case split over the most recent join started beside them (each
// case = the same query plus one selector; the cases are exhaustive because the disjunction of the selectors is itself
// an assumption; up to three nested splits). The first proof (unsat) wins; a "sat" answer is final as well.
func solvePortfolio(ctx context.Context, o *Obligation, file string, opt solveOpts, depth int, allowSplit bool) {
	if o.Cover {
		// vacuity check: "unsat" means the assumptions are contradictory; any other answer passes
		st, out, secs := runSolver(ctx, solvers[0], file, 3*time.Second)
		o.Seconds, o.Output = secs, solvers[0].Name+": "+firstLine(out)
		switch st {
		case "unsat", "sat":
			o.Status, o.Solver = st, solvers[0].Name
		default:
			o.Status, o.Solver = "not-refuted", ""
		}
		return
	}
	type res struct {
		who  string
		st   string
		out  string
		secs float64
	}
	cctx, cancel := context.WithCancel(ctx)
	defer cancel()
	n := 0
	ch := make(chan res, len(solvers)+1)
	t0 := time.Now()
	for k, idx := range portfolioOrder {
		if idx >= len(solvers) {
			continue
		}
		sc := solvers[idx]
		delay := stagger[k]
		if delay >= opt.timeout {
			continue
		}
		n++
		go func(sc SolverCfg, delay time.Duration) {
			select {
			case <-time.After(delay):
			case <-cctx.Done():
				ch <- res{sc.Name, "cancelled", "", 0}
				return
			}
			st, out, secs := runSolver(cctx, sc, file, opt.timeout-delay)
			ch <- res{sc.Name, st, firstLine(out), secs}
		}(sc, delay)
	}
	var subs []*Obligation
	if allowSplit && o.Raw == "" && depth < 3 && len(o.Joins) > depth {
		if txt, err := os.ReadFile(file); err == nil {
			variants := o.Joins[len(o.Joins)-1-depth]
			subs = make([]*Obligation, len(variants))
			n++
			go func() {
				select {
				case <-time.After(6 * time.Second):
				case <-cctx.Done():
					ch <- res{"case-split", "cancelled", "", 0}
					return
				}
				var wg sync.WaitGroup
				for i, v := range variants {
					sub := &Obligation{Name: o.Name, Joins: o.Joins}
					subs[i] = sub
					f := fmt.Sprintf("%s.c%d", strings.TrimSuffix(file, ".smt2"), i) + ".smt2"
					os.WriteFile(f, []byte(strings.Replace(string(txt), "(check-sat)", "(assert "+v+")\n(check-sat)", 1)), 0o644)
					wg.Add(1)
					go func(sub *Obligation, f string) {
						defer wg.Done()
						solvePortfolio(cctx, sub, f, opt, depth+1, true)
					}(sub, f)
				}
				wg.Wait()
				st, secs, via := "unsat", 0.0, ""
				for _, sub := range subs {
					secs += sub.Seconds
					via = sub.Solver
					if sub.Status != "unsat" {
						st = "unknown" // a case without proof decides nothing about the whole (not even "sat")
					}
				}
				ch <- res{"case-split(" + via + ")", st, fmt.Sprintf("case split over the %d cases of a control-flow join: %s", len(variants), st), secs}
			}()
		}
	}
	final, solver := "unknown", ""
	var outs []string
	total := 0.0
	for ; n > 0; n-- {
		r := <-ch
		if r.st == "cancelled" {
			continue
		}
		total += r.secs
		outs = append(outs, r.who+": "+r.out)
		if r.st == "unsat" || r.st == "sat" {
			final, solver = r.st, r.who
			break
		}
		if r.st == "timeout" && final == "unknown" {
			final = "timeout"
		}
	}
	cancel()
	if wall := time.Since(t0).Seconds(); total < wall {
		total = wall
	}
	o.Status, o.Solver, o.Seconds, o.Output = final, solver, total, strings.Join(outs, "; ")
}

func firstLine(s string) string {
	s = strings.TrimSpace(s)
	if i := strings.Index(s, "\n"); i >= 0 {
		s = s[:i]
	}
	if len(s) > 200 {
		s = s[:200]
	}
	return s
}

func minDur(a, b time.Duration) time.Duration {
	if a < b {
		return a
	}
	return b
}

// getModel re-runs a failed obligation asking for a model (z3-new), returning the raw model text.
func (prog *Program) getModel(o *Obligation, axioms []*Term, dir string, timeout time.Duration) string {
	txt := prog.buildSMT(o, axioms, true)
	f := filepath.Join(dir, "model.smt2")
	os.WriteFile(f, []byte(txt), 0o644)
	_, out, _ := runSolver(context.Background(), solvers[0], f, timeout)
	if len(out) > 60000 {
		out = out[:60000] + "\n...truncated"
	}
	return out
}

// joinVariants recognises the fact a control-flow join leaves in the path condition, "(or g1 .. gn)" (possibly under a
// condition c when the join is nested in a branch), and returns the case split it licenses: one assertion per case,
// together exhaustive.
func joinVariants(t *Term) []string {
	isG := func(x *Term) bool { return x.D != nil && len(x.Args) == 0 && strings.HasPrefix(x.D.Name, "g@") }
	var cond *Term
	if t.Op == "=>" && len(t.Args) == 2 {
		cond, t = t.Args[0], t.Args[1]
	}
	if t.Op != "or" || len(t.Args) < 2 {
		return nil
	}
	for _, a := range t.Args {
		if !isG(a) {
			return nil
		}
	}
	var out []string
	if cond != nil {
		out = append(out, "(not "+cond.String()+")")
	}
	for _, a := range t.Args {
		out = append(out, a.String())
	}
	return out
}

// solverJobs: number of solver processes in flight = CPUs this process may run on (at most 16, at least 2).
func solverJobs() int {
	n := runtime.NumCPU()
	if n > 16 {
		n = 16
	}
	if n < 2 {
		n = 2
	}
	return n
}
