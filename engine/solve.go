package main

// SMT-LIB emission and solver racing.

import (
	"bytes"
	"context"
	"fmt"
	"os"
	"os/exec"
	"path/filepath"
	"strings"
	"sync"
	"time"
)

type SolverCfg struct {
	Name string
	Cmd  []string
}

var solvers = []SolverCfg{
	{"z3-new-5.1.0", []string{"z3-new", "-smt2"}},
	{"z3-4.8.12", []string{"z3", "-smt2"}},
	{"cvc5-1.0.3", []string{"cvc5", "--lang=smt2"}},
}

// groundOnly: drop every quantified assumption (used to find candidate counterexamples quickly; a candidate is
// only reported after it has been confirmed by running the real code).
var groundOnly bool

func hasQuant(t *Term) bool {
	if t.Op == "forall" || t.Op == "exists" {
		return true
	}
	for _, a := range t.Args {
		if hasQuant(a) {
			return true
		}
	}
	return false
}

func (prog *Program) buildSMT(o *Obligation, axioms []*Term, wantModel bool) string {
	if o.Raw != "" {
		raw := o.Raw
		if wantModel {
			raw = "(set-option :produce-models true)\n" + strings.Replace(raw, "(check-sat)", "(check-sat)\n(get-model)", 1)
		}
		return "; obligation " + o.Name + "\n; " + strings.ReplaceAll(o.Desc, "\n", " ") + "\n" + raw
	}
	c := newCollector()
	all := append([]*Term{}, o.Assume...)
	all = append(all, o.Goal)
	all = append(all, axioms...)
	for _, t := range all {
		c.term(t)
	}
	// background axioms depend on which symbols are used; iterate to a fixpoint (they may introduce symbols)
	var bg []*Term
	for iter := 0; iter < 3; iter++ {
		bg = append(strAxioms(c.decls), shiftAxioms(c.decls)...)
		n := len(c.decls)
		for _, t := range bg {
			c.term(t)
		}
		if len(c.decls) == n {
			break
		}
	}
	var b strings.Builder
	b.WriteString("; obligation " + o.Name + "\n; " + strings.ReplaceAll(o.Desc, "\n", " ") + "\n; " + o.Pos + "\n")
	if wantModel {
		b.WriteString("(set-option :produce-models true)\n")
	}
	b.WriteString("(set-logic ALL)\n")
	c.header(&b)
	for _, t := range bg {
		if groundOnly && hasQuant(t) {
			continue
		}
		b.WriteString("(assert " + t.String() + ")\n")
	}
	for _, t := range axioms {
		if groundOnly && hasQuant(t) {
			continue
		}
		b.WriteString("(assert " + t.String() + ")\n")
	}
	for _, t := range o.Assume {
		if groundOnly && hasQuant(t) {
			continue
		}
		b.WriteString("(assert " + t.String() + ")\n")
	}
	if o.Cover {
		b.WriteString("; cover (vacuity check): the assumptions must not be refutable; any answer but unsat passes\n")
	} else {
		b.WriteString("(assert (not " + o.Goal.String() + "))\n")
	}
	b.WriteString("(check-sat)\n")
	if wantModel {
		b.WriteString("(get-model)\n")
	}
	return b.String()
}

func runSolver(ctx context.Context, sc SolverCfg, file string, timeout time.Duration) (status string, out string, secs float64) {
	args := append([]string{}, sc.Cmd[1:]...)
	switch {
	case strings.HasPrefix(sc.Name, "z3"):
		args = append(args, fmt.Sprintf("-T:%d", int(timeout.Seconds())+1))
	case strings.HasPrefix(sc.Name, "cvc5"):
		args = append(args, fmt.Sprintf("--tlimit=%d", timeout.Milliseconds()))
	}
	args = append(args, file)
	cctx, cancel := context.WithTimeout(ctx, timeout+2*time.Second)
	defer cancel()
	cmd := exec.CommandContext(cctx, sc.Cmd[0], args...)
	var buf bytes.Buffer
	cmd.Stdout = &buf
	cmd.Stderr = &buf
	t0 := time.Now()
	_ = cmd.Run()
	secs = time.Since(t0).Seconds()
	out = buf.String()
	first := strings.TrimSpace(strings.SplitN(out, "\n", 2)[0])
	switch first {
	case "unsat", "sat", "unknown":
		status = first
	case "timeout":
		status = "timeout"
	default:
		if cctx.Err() != nil {
			status = "timeout"
		} else {
			status = "error"
		}
	}
	return
}

type solveOpts struct {
	timeout time.Duration
	dir     string
	jobs    int
	cross   bool // thorough: also require no solver says sat
}

func (prog *Program) discharge(obls []*Obligation, axioms []*Term, opt solveOpts) {
	os.MkdirAll(opt.dir, 0o755)
	var wg sync.WaitGroup
	sem := make(chan struct{}, opt.jobs)
	// SMT text must be generated sequentially (term tables are not thread safe)
	files := make([]string, len(obls))
	for i, o := range obls {
		txt := prog.buildSMT(o, axioms, false)
		o.SMT = txt
		f := filepath.Join(opt.dir, fmt.Sprintf("o%05d.smt2", i))
		os.WriteFile(f, []byte(txt), 0o644)
		files[i] = f
	}
	for i, o := range obls {
		wg.Add(1)
		go func(i int, o *Obligation) {
			defer wg.Done()
			sem <- struct{}{}
			defer func() { <-sem }()
			solveOne(o, files[i], opt)
		}(i, o)
	}
	wg.Wait()
}

func solveOne(o *Obligation, file string, opt solveOpts) {
	ctx := context.Background()
	if o.Cover {
		// vacuity check: run the two z3 versions briefly; "unsat" means the assumptions are contradictory
		total := 0.0
		var outs []string
		for _, sc := range solvers[:1] {
			st, out, secs := runSolver(ctx, sc, file, 3*time.Second)
			total += secs
			outs = append(outs, sc.Name+": "+firstLine(out))
			if st == "unsat" {
				o.Status, o.Solver, o.Seconds, o.Output = "unsat", sc.Name, total, strings.Join(outs, "; ")
				return
			}
			if st == "sat" {
				o.Status, o.Solver, o.Seconds, o.Output = "sat", sc.Name, total, strings.Join(outs, "; ")
				return
			}
		}
		o.Status, o.Solver, o.Seconds, o.Output = "not-refuted", "", total, strings.Join(outs, "; ")
		return
	}
	want := "unsat"
	if o.Cover {
		want = "sat"
	}
	total := 0.0
	var outs []string
	// stage 1: primary solver with a short budget; stage 2: race all
	st, out, secs := runSolver(ctx, solvers[0], file, minDur(opt.timeout, 5*time.Second))
	total += secs
	outs = append(outs, solvers[0].Name+": "+firstLine(out))
	if st == want {
		o.Status, o.Solver, o.Seconds, o.Output = st, solvers[0].Name, total, strings.Join(outs, "; ")
		return
	}
	if st == "sat" || st == "unsat" {
		// definite opposite answer from the primary solver
		o.Status, o.Solver, o.Seconds, o.Output = st, solvers[0].Name, total, strings.Join(outs, "; ")
		return
	}
	type res struct {
		sc   SolverCfg
		st   string
		out  string
		secs float64
	}
	ch := make(chan res, len(solvers))
	cctx, cancel := context.WithCancel(ctx)
	defer cancel()
	for _, sc := range solvers {
		go func(sc SolverCfg) {
			st, out, secs := runSolver(cctx, sc, file, opt.timeout)
			ch <- res{sc, st, out, secs}
		}(sc)
	}
	final := "unknown"
	solver := ""
	for range solvers {
		r := <-ch
		outs = append(outs, r.sc.Name+": "+firstLine(r.out))
		if r.secs > 0 {
			total += r.secs
		}
		if r.st == want {
			final, solver = r.st, r.sc.Name
			break
		}
		if (r.st == "sat" || r.st == "unsat") && final == "unknown" {
			if o.Cover && strings.HasPrefix(r.sc.Name, "cvc5") {
				continue
			}
			final, solver = r.st, r.sc.Name
			// a definite opposite answer: keep waiting briefly? accept it.
			break
		}
		if r.st == "timeout" && final == "unknown" {
			final = "timeout"
		}
	}
	o.Status, o.Solver, o.Seconds, o.Output = final, solver, total, strings.Join(outs, "; ")
}

func firstLine(s string) string {
	s = strings.TrimSpace(s)
	if i := strings.Index(s, "\n"); i >= 0 {
		s = s[:i]
	}
	if len(s) > 200 {
		s = s[:200]
	}
	return s
}

func minDur(a, b time.Duration) time.Duration {
	if a < b {
		return a
	}
	return b
}

// getModel re-runs a failed obligation asking for a model (z3-new), returning the raw model text.
func (prog *Program) getModel(o *Obligation, axioms []*Term, dir string, timeout time.Duration) string {
	txt := prog.buildSMT(o, axioms, true)
	f := filepath.Join(dir, "model.smt2")
	os.WriteFile(f, []byte(txt), 0o644)
	_, out, _ := runSolver(context.Background(), solvers[0], f, timeout)
	if len(out) > 60000 {
		out = out[:60000] + "\n...truncated"
	}
	return out
}
