package main

// Statement execution.

import (
	"fmt"
	"go/ast"
	"go/token"
	"go/types"
)

func (vc *VC) execBlock(s *State, list []ast.Stmt) *State {
	for _, st := range list {
		if s.dead {
			// a labeled statement that is the target of pending forward gotos revives the flow
			if ls, ok := st.(*ast.LabeledStmt); ok && len(vc.frame().gotos[ls.Label.Name]) > 0 {
				s.dead = false
				pend := vc.frame().gotos[ls.Label.Name]
				delete(vc.frame().gotos, ls.Label.Name)
				vc.join(s, pend...)
				vc.execStmt(s, ls.Stmt, ls.Label.Name)
			}
			continue
		}
		vc.execStmt(s, st, "")
	}
	return s
}

func (vc *VC) execStmt(s *State, st ast.Stmt, label string) {
	if s.dead {
		return
	}
	vc.curPos = st.Pos()
	vc.curStmt = st
	switch x := st.(type) {
	case *ast.EmptyStmt:
	case *ast.ExprStmt:
		if call, ok := ast.Unparen(x.X).(*ast.CallExpr); ok {
			vc.evalMulti(s, call, 0)
		} else {
			vc.evalMulti(s, x.X, 1)
		}
	case *ast.AssignStmt:
		vc.siteClauses(s, "assign:"+exprStr(x.Lhs[0]), st)
		vc.execAssign(s, x)
	case *ast.DeclStmt:
		gd := x.Decl.(*ast.GenDecl)
		if gd.Tok != token.VAR {
			return
		}
		for _, sp := range gd.Specs {
			vs := sp.(*ast.ValueSpec)
			if len(vs.Values) == 0 {
				for _, nm := range vs.Names {
					if nm.Name == "_" {
						continue
					}
					o := vc.frame().info.Defs[nm].(*types.Var)
					vc.declVar(s, o, zeroValue(o.Type()))
				}
				continue
			}
			if len(vs.Values) == 1 && len(vs.Names) > 1 {
				vals := vc.evalMulti(s, vs.Values[0], len(vs.Names))
				for i, nm := range vs.Names {
					if nm.Name == "_" {
						continue
					}
					o := vc.frame().info.Defs[nm].(*types.Var)
					vc.declVar(s, o, vals[i])
				}
				continue
			}
			for i, nm := range vs.Names {
				o, _ := vc.frame().info.Defs[nm].(*types.Var)
				if lit, ok := vs.Values[i].(*ast.FuncLit); ok && o != nil {
					vc.closures[o] = lit
				}
				var v *Term
				if o != nil {
					v = vc.evalTo(s, vs.Values[i], o.Type())
				} else {
					v = vc.eval(s, vs.Values[i])
				}
				if o != nil && nm.Name != "_" {
					vc.declVar(s, o, v)
				}
			}
		}
	case *ast.IncDecStmt:
		v := vc.eval(s, x.X)
		if x.Tok == token.INC {
			vc.assign(s, x.X, Add(v, IntLit(1)))
		} else {
			vc.assign(s, x.X, Sub(v, IntLit(1)))
		}
	case *ast.BlockStmt:
		vc.execBlock(s, x.List)
	case *ast.IfStmt:
		vc.execIf(s, x)
	case *ast.ForStmt:
		vc.execFor(s, x, label)
	case *ast.RangeStmt:
		vc.execRange(s, x, label)
	case *ast.SwitchStmt:
		vc.execSwitch(s, x, label)
	case *ast.TypeSwitchStmt:
		vc.execTypeSwitch(s, x, label)
	case *ast.LabeledStmt:
		// forward gotos to this label are joined here, before the labeled statement
		if pend := vc.frame().gotos[x.Label.Name]; len(pend) > 0 {
			delete(vc.frame().gotos, x.Label.Name)
			vc.join(s, append([]*State{s.clone()}, pend...)...)
		}
		vc.execStmt(s, x.Stmt, x.Label.Name)
	case *ast.BranchStmt:
		vc.execBranch(s, x)
	case *ast.ReturnStmt:
		vc.execReturn(s, x)
	case *ast.DeferStmt:
		fr := vc.frame()
		found := false
		for _, d := range fr.defers {
			if d == x {
				found = true
			}
		}
		if !found {
			fr.defers = append(fr.defers, x)
		}
		s.ghost[deferFlag(x)] = True
	case *ast.GoStmt:
		vc.execGo(s, x)
	case *ast.SendStmt:
		vc.execSend(s, x)
	case *ast.SelectStmt:
		vc.execSelect(s, x, label)
	default:
		vc.unsupported(st, fmt.Sprintf("statement %T", st))
	}
}

func (vc *VC) declVar(s *State, o *types.Var, v *Term) {
	if vc.boxed[o] {
		ref := vc.allocRef(s, o.Name(), typeID(o.Type()))
		s.env[o] = ref
		if typeKey(o.Type()) == "sync.WaitGroup" {
			vc.ghostSet(s, "wgadd", ref, IntLit(0))
			vc.ghostSet(s, "wgdone", ref, IntLit(0))
		}
		vc.storePtr(s, o.Type(), ref, v)
		return
	}
	s.env[o] = s.name(o.Name(), v)
}

func (vc *VC) execAssign(s *State, x *ast.AssignStmt) {
	info := vc.frame().info
	define := x.Tok == token.DEFINE
	setLHS := func(lhs ast.Expr, v *Term, rhsT types.Type) {
		if isBlank(lhs) {
			return
		}
		if define {
			if id, ok := lhs.(*ast.Ident); ok {
				if o, ok := info.Defs[id].(*types.Var); ok && o != nil {
					vc.declVar(s, o, vc.convertForAssign(s, v, rhsT, o.Type(), lhs))
					return
				}
			}
		}
		vc.assign(s, lhs, vc.convertForAssign(s, v, rhsT, vc.typeOf(lhs), lhs))
	}
	if x.Tok != token.ASSIGN && x.Tok != token.DEFINE {
		// op-assign
		var o token.Token
		switch x.Tok {
		case token.ADD_ASSIGN:
			o = token.ADD
		case token.SUB_ASSIGN:
			o = token.SUB
		case token.MUL_ASSIGN:
			o = token.MUL
		case token.QUO_ASSIGN:
			o = token.QUO
		case token.REM_ASSIGN:
			o = token.REM
		case token.AND_ASSIGN:
			o = token.AND
		case token.OR_ASSIGN:
			o = token.OR
		case token.XOR_ASSIGN:
			o = token.XOR
		case token.SHL_ASSIGN:
			o = token.SHL
		case token.SHR_ASSIGN:
			o = token.SHR
		case token.AND_NOT_ASSIGN:
			o = token.AND_NOT
		}
		l := vc.eval(s, x.Lhs[0])
		r := vc.eval(s, x.Rhs[0])
		lt := vc.typeOf(x.Lhs[0])
		v := vc.binop(s, x, o, l, r, lt, vc.typeOf(x.Rhs[0]), lt)
		vc.assign(s, x.Lhs[0], v)
		return
	}
	if len(x.Rhs) == 1 && len(x.Lhs) > 1 {
		vals := vc.evalMulti(s, x.Rhs[0], len(x.Lhs))
		if len(vals) != len(x.Lhs) {
			vc.unsupported(x, "tuple assignment arity")
		}
		var rts []types.Type
		if tup, ok := vc.typeOf(x.Rhs[0]).(*types.Tuple); ok {
			for i := 0; i < tup.Len(); i++ {
				rts = append(rts, tup.At(i).Type())
			}
		}
		for i, l := range x.Lhs {
			var rt types.Type
			if i < len(rts) {
				rt = rts[i]
			}
			setLHS(l, vals[i], rt)
		}
		return
	}
	// closures bound to a local: remember the literal for inlining
	vals := make([]*Term, len(x.Rhs))
	for i, r := range x.Rhs {
		if lit, ok := ast.Unparen(r).(*ast.FuncLit); ok {
			if id, ok := x.Lhs[i].(*ast.Ident); ok {
				if o := info.ObjectOf(id); o != nil {
					vc.closures[o] = lit
				}
			}
		}
		var target types.Type
		if !isBlank(x.Lhs[i]) {
			if define {
				if id, ok := x.Lhs[i].(*ast.Ident); ok {
					if o := info.Defs[id]; o != nil {
						target = o.Type()
					}
				}
			}
			if target == nil {
				target = vc.typeOf(x.Lhs[i])
			}
		}
		if target != nil {
			vals[i] = vc.evalTo(s, r, target)
		} else {
			vals[i] = vc.eval(s, r)
		}
	}
	for i, l := range x.Lhs {
		setLHS(l, vals[i], nil)
	}
}

func (vc *VC) execIf(s *State, x *ast.IfStmt) {
	if x.Init != nil {
		vc.execStmt(s, x.Init, "")
		if s.dead {
			return
		}
	}
	c := vc.eval(s, x.Cond)
	if s.dead {
		return
	}
	s1 := s.clone()
	s1.assume(c)
	vc.execBlock(s1, x.Body.List)
	s2 := s.clone()
	s2.assume(Not(c))
	if x.Else != nil {
		vc.execStmt(s2, x.Else, "")
	}
	vc.join(s, s1, s2)
}

// join replaces *s by the merge of the given states (dead ones dropped).
func (vc *VC) join(s *State, states ...*State) {
	m := vc.mergeStates(states)
	if m == nil {
		s.dead = true
		return
	}
	res := s.result
	*s = *m
	s.result = res
}

func (vc *VC) execReturn(s *State, x *ast.ReturnStmt) {
	if len(vc.frames) == 1 {
		vc.siteClausesOpt(s, "return", x)
	}
	fr := vc.frame()
	n := fr.sig.Results().Len()
	var vals []*Term
	switch {
	case len(x.Results) == 0:
		vals = vc.namedResultValues(s, fr, fr.sig)
	case len(x.Results) == 1 && n > 1:
		vals = vc.evalMulti(s, x.Results[0], n)
	default:
		vals = make([]*Term, n)
		for i, r := range x.Results {
			vals[i] = vc.evalTo(s, r, fr.sig.Results().At(i).Type())
		}
	}
	if s.dead {
		return
	}
	// assign to named results (visible to deferred functions)
	if len(x.Results) > 0 && len(fr.results) == n {
		for i, v := range fr.results {
			vc.setVar(s, v, vals[i])
		}
	}
	r := s.clone()
	r.result = vals
	fr.rets = append(fr.rets, r)
	s.dead = true
}

func (vc *VC) findTarget(label string, forContinue bool) *jumpTarget {
	fr := vc.frame()
	for i := len(fr.targets) - 1; i >= 0; i-- {
		t := fr.targets[i]
		if label != "" {
			if t.label == label {
				return t
			}
			continue
		}
		if forContinue && !t.isLoop {
			continue
		}
		return t
	}
	return nil
}

func (vc *VC) execBranch(s *State, x *ast.BranchStmt) {
	label := ""
	if x.Label != nil {
		label = x.Label.Name
	}
	switch x.Tok {
	case token.BREAK:
		t := vc.findTarget(label, false)
		if t == nil {
			vc.unsupported(x, "break target not found")
		}
		t.breaks = append(t.breaks, s.clone())
		s.dead = true
	case token.CONTINUE:
		t := vc.findTarget(label, true)
		if t == nil {
			vc.unsupported(x, "continue target not found")
		}
		t.continues = append(t.continues, s.clone())
		s.dead = true
	case token.GOTO:
		fr := vc.frame()
		if fr.gotos == nil {
			fr.gotos = map[string][]*State{}
		}
		fr.gotos[label] = append(fr.gotos[label], s.clone())
		s.dead = true
	case token.FALLTHROUGH:
		s.ghost["$fallthrough"] = True
	}
}

func (vc *VC) execSwitch(s *State, x *ast.SwitchStmt, label string) {
	if x.Init != nil {
		vc.execStmt(s, x.Init, "")
	}
	var tag *Term
	var tagT types.Type
	if x.Tag != nil {
		tag = vc.eval(s, x.Tag)
		tagT = vc.typeOf(x.Tag)
	}
	if s.dead {
		return
	}
	tgt := &jumpTarget{label: label}
	fr := vc.frame()
	fr.targets = append(fr.targets, tgt)
	var ends []*State
	rest := s.clone() // state in which no previous case matched
	var defaultClause *ast.CaseClause
	var fall *State // state falling through into the next clause
	clauses := x.Body.List
	for idx, cs := range clauses {
		cc := cs.(*ast.CaseClause)
		if cc.List == nil {
			defaultClause = cc
			if fall != nil {
				// fallthrough into default: handle when executing default below
				vc.unsupported(cc, "fallthrough into default")
			}
			continue
		}
		// match condition evaluated in rest
		var conds []*Term
		for _, e := range cc.List {
			if tag != nil {
				v := vc.eval(rest, e)
				conds = append(conds, vc.binop(rest, e, token.EQL, tag, v, tagT, vc.typeOf(e), types.Typ[types.Bool]))
			} else {
				conds = append(conds, vc.eval(rest, e))
			}
		}
		c := Or(conds...)
		body := rest.clone()
		body.assume(c)
		if fall != nil {
			body = vc.mergeStates([]*State{body, fall})
			fall = nil
		}
		rest.assume(Not(c))
		if body != nil {
			delete(body.ghost, "$fallthrough")
			vc.execBlock(body, cc.Body)
			if !body.dead {
				if body.ghost["$fallthrough"] == True {
					delete(body.ghost, "$fallthrough")
					fall = body
					if idx == len(clauses)-1 {
						vc.unsupported(cc, "fallthrough in last clause")
					}
				} else {
					ends = append(ends, body)
				}
			}
		}
	}
	if defaultClause != nil {
		vc.execBlock(rest, defaultClause.Body)
	}
	if fall != nil {
		ends = append(ends, fall)
	}
	if !rest.dead {
		ends = append(ends, rest)
	}
	fr.targets = fr.targets[:len(fr.targets)-1]
	ends = append(ends, tgt.breaks...)
	vc.join(s, ends...)
}

func (vc *VC) execTypeSwitch(s *State, x *ast.TypeSwitchStmt, label string) {
	if x.Init != nil {
		vc.execStmt(s, x.Init, "")
	}
	var guard ast.Expr
	var bindName *ast.Ident
	switch a := x.Assign.(type) {
	case *ast.ExprStmt:
		guard = a.X.(*ast.TypeAssertExpr).X
	case *ast.AssignStmt:
		guard = a.Rhs[0].(*ast.TypeAssertExpr).X
		bindName = a.Lhs[0].(*ast.Ident)
	}
	_ = bindName
	v := vc.eval(s, guard)
	vc.prog.Abstracted["type switch (dynamic types uninterpreted)"] = true
	tgt := &jumpTarget{label: label}
	fr := vc.frame()
	fr.targets = append(fr.targets, tgt)
	var ends []*State
	rest := s.clone()
	var def *ast.CaseClause
	for _, cs := range x.Body.List {
		cc := cs.(*ast.CaseClause)
		if cc.List == nil {
			def = cc
			continue
		}
		var conds []*Term
		var oneT types.Type
		for _, e := range cc.List {
			if id, ok := e.(*ast.Ident); ok && id.Name == "nil" {
				conds = append(conds, Eq(v, IntLit(0)))
				continue
			}
			t := vc.typeOf(e)
			oneT = t
			conds = append(conds, And(Not(Eq(v, IntLit(0))), App("iface.is."+typeKey(t), SBool, v)))
		}
		c := Or(conds...)
		body := rest.clone()
		body.assume(c)
		rest.assume(Not(c))
		if o := fr.info.Implicits[cc]; o != nil {
			ov := o.(*types.Var)
			if len(cc.List) == 1 && oneT != nil {
				body.env[ov] = vc.loaded(body, oneT, App("iface.as."+typeKey(oneT), sortOf(oneT), v), ov.Name())
			} else {
				body.env[ov] = v
			}
		}
		vc.execBlock(body, cc.Body)
		if !body.dead {
			ends = append(ends, body)
		}
	}
	if def != nil {
		if o := fr.info.Implicits[def]; o != nil {
			rest.env[o.(*types.Var)] = v
		}
		vc.execBlock(rest, def.Body)
	}
	if !rest.dead {
		ends = append(ends, rest)
	}
	fr.targets = fr.targets[:len(fr.targets)-1]
	ends = append(ends, tgt.breaks...)
	vc.join(s, ends...)
}

// siteClauses applies "site <key> assert e" (obligation) and "site <key> assume-known-finding ID: e" (restriction)
// clauses of the function under verification at a statement.
// siteClausesOpt: like siteClauses but for keys that match many statements (every return / go).
func (vc *VC) siteClausesOpt(s *State, key string, st ast.Stmt) {
	if vc.fn.Spec == nil {
		return
	}
	if len(vc.fn.Spec.Asserts[key]) == 0 && len(vc.fn.Spec.SiteKFs[key]) == 0 {
		return
	}
	vc.siteClauses(s, key, st)
}

func (vc *VC) siteClauses(s *State, key string, st ast.Stmt) {
	if len(vc.frames) != 1 || vc.fn.Spec == nil {
		return
	}
	spec := vc.fn.Spec
	as, kfs := spec.Asserts[key], spec.SiteKFs[key]
	if len(as) == 0 && len(kfs) == 0 {
		return
	}
	fr := vc.frame()
	env := &SpecEnv{vc: vc, st: s, old: vc.entry, vars: map[string]TV{}, pkg: fr.pkg, what: "site " + key + " of " + shortKey(vc.fn.Key)}
	// innermost scope containing the statement
	env.scope = fr.info.Scopes[vc.fn.Decl.Type]
	if sc := vc.fn.Pkg.Types.Scope().Innermost(st.Pos()); sc != nil {
		env.scope = sc
	}
	env.pos = st.Pos()
	for k, t := range s.ghost {
		env.vars[k] = TV{t, vc.ghostTypes[k]}
	}
	vc.usedSites[key] = true
	for _, kf := range kfs {
		if !vc.noKF {
			s.assume(env.evalBool(kf.Expr))
		}
	}
	for i, a := range as {
		vc.oblige(s, "assert", fmt.Sprintf("%s:%d", key, i+1), "site assertion: "+a.Src, st.Pos(), env.evalBool(a))
	}
}
