package main

import (
	"fmt"
	"go/ast"
	"go/types"
	"sort"
	"strings"
)

// listMapRanges enumerates range statements over maps (and reflect MapRange / sync.Map.Range calls) in module packages.
type mapLoop struct {
	Func string
	Ord  int
	Pos  string
	Stmt *ast.RangeStmt
	Call *ast.CallExpr
	FI   *FuncInfo
	Kind string
}

func (prog *Program) mapLoops() []*mapLoop {
	var out []*mapLoop
	var keys []string
	for k := range prog.Funcs {
		keys = append(keys, k)
	}
	sort.Strings(keys)
	for _, k := range keys {
		fi := prog.Funcs[k]
		if !strings.HasPrefix(fi.Pkg.PkgPath, modulePath) || fi.Decl.Body == nil {
			continue
		}
		if strings.HasSuffix(prog.Fset.Position(fi.Decl.Pos()).Filename, "_test.go") {
			continue
		}
		n := 0
		ast.Inspect(fi.Decl.Body, func(nd ast.Node) bool {
			switch x := nd.(type) {
			case *ast.RangeStmt:
				if t := fi.Pkg.TypesInfo.TypeOf(x.X); t != nil {
					if _, ok := t.Underlying().(*types.Map); ok {
						n++
						pos := prog.Fset.Position(x.Pos())
						out = append(out, &mapLoop{Func: shortKey(k), Ord: n, Pos: fmt.Sprintf("%s:%d", relFile(pos.Filename), pos.Line), Stmt: x, FI: fi, Kind: "range"})
					}
				}
			case *ast.CallExpr:
				if se, ok := x.Fun.(*ast.SelectorExpr); ok && (se.Sel.Name == "MapRange" || se.Sel.Name == "MapKeys") {
					n++
					pos := prog.Fset.Position(x.Pos())
					out = append(out, &mapLoop{Func: shortKey(k), Ord: n, Pos: fmt.Sprintf("%s:%d", relFile(pos.Filename), pos.Line), Call: x, FI: fi, Kind: se.Sel.Name})
				}
			}
			return true
		})
	}
	return out
}
