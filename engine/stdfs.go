package main

// Ghost file system and verification of function literals passed as values ("callbacks").
//
// Ghost file system (enough to state "the file at path holds exactly these bytes"):
//
//	$fs.data  : path -> []byte   the bytes known to be at the start of the file
//	$fs.whole : path -> bool     the file holds nothing beyond $fs.data[path]
//	$fs.fpath : *os.File -> path ; $fs.fnw : *os.File -> number of successful writes through that handle
//
//	ioutil.WriteFile / os.WriteFile(p, b, _) == nil   : data[p] = b, whole[p] = true
//	os.OpenFile(p, flag, _) / os.Create(p)  == f, nil : fpath[f] = p, fnw[f] = 0; flag is a constant containing O_TRUNC
//	                                                    (and not O_APPEND): data[p] = empty, whole[p] = true;
//	                                                    otherwise data[p] unknown, whole[p] = false (old bytes may remain)
//	f.Write(b) == len(b), nil                         : first write through f: data[fpath f] = b, whole unchanged;
//	                                                    later writes: data unknown, whole = false (concatenation is not modelled)
//	any of them failing                               : data[p] unknown, whole[p] = false
//	f.Close()                                         : no effect on the ghost (its error is the caller's to propagate)
//
// Spec builtins: fsdata(p), fswhole(p). Flag constants are those of the platform the check runs on.
// Assumption recorded with every use: nothing else in the verified region touches the files (opaque calls such as loggers
// are taken not to write to the paths in question).
//
// Callbacks: a function literal used as a value in a function whose contract has `callback ensures E` clauses is verified
// as a procedure of its own: parameters arbitrary (well-typed), heap arbitrary (it runs at an unknown later time),
// captured variables keep their values only if the enclosing function never assigns them after their declaration;
// E is checked on every normal return (result / named results / parameters / call records / ghost file system in scope).

import (
	"fmt"
	"go/ast"
	"go/constant"
	"go/token"
	"go/types"
	"os"
)

var byteSliceT = types.NewSlice(types.Typ[types.Byte])

func fsSort(key string) *Sort {
	switch key {
	case "$fs.data":
		return ArraySort(SStr, sortOf(byteSliceT))
	case "$fs.whole":
		return ArraySort(SStr, SBool)
	case "$fs.fpath":
		return ArraySort(SInt, SStr)
	}
	return ArraySort(SInt, SInt) // $fs.fnw
}

func (vc *VC) fsGhost(s *State, key string) *Term {
	if t, ok := s.ghost[key]; ok {
		return t
	}
	t := Fresh("fs", fsSort(key))
	s.ghost[key] = t
	vc.prog.Assumed["ghost file system: only os.OpenFile/Create, (*os.File).Write/Close, os.WriteFile/ioutil.WriteFile change the files of interest; flag constants are the platform's"] = true
	return t
}

func (vc *VC) fsSet(s *State, key string, idx, v *Term) {
	cur := vc.fsGhost(s, key)
	n := Fresh("fs", cur.Sort)
	s.assume(Eq(n, Store(cur, idx, v)))
	s.ghost[key] = n
}

// fsUnknown: the content of path p is no longer known.
func (vc *VC) fsUnknown(s *State, p *Term) {
	vc.fsSet(s, "$fs.data", p, Fresh("bytes", sortOf(byteSliceT)))
	vc.fsSet(s, "$fs.whole", p, False)
}

func emptyBytes() *Term {
	srt := sortOf(byteSliceT)
	return mkSlice(srt, Fresh("noelems", srt.DT.Fields[0].Sort), IntLit(0), IntLit(0), False)
}

func errResult(s *State) *Term {
	e := Fresh("err", SInt)
	s.assume(Ge(e, IntLit(0)))
	return e
}

func init() {
	writeFile := func(vc *VC, s *State, call *ast.CallExpr, args []*Term) []*Term {
		e := errResult(s)
		ok := s.clone()
		ok.assume(Eq(e, IntLit(0)))
		vc.fsSet(ok, "$fs.data", args[0], args[1])
		vc.fsSet(ok, "$fs.whole", args[0], True)
		bad := s.clone()
		bad.assume(Not(Eq(e, IntLit(0))))
		vc.fsUnknown(bad, args[0])
		vc.join(s, ok, bad)
		return []*Term{e}
	}
	stdModels["io/ioutil.WriteFile"] = writeFile
	stdModels["os.WriteFile"] = writeFile
	open := func(vc *VC, s *State, path *Term, trunc bool) []*Term {
		e := errResult(s)
		f := Fresh("file", SInt)
		ok := s.clone()
		ok.assume(Eq(e, IntLit(0)))
		ok.assume(Gt(f, IntLit(0)))
		vc.fsSet(ok, "$fs.fpath", f, path)
		vc.fsSet(ok, "$fs.fnw", f, IntLit(0))
		if trunc {
			vc.fsSet(ok, "$fs.data", path, emptyBytes())
			vc.fsSet(ok, "$fs.whole", path, True)
		} else {
			vc.fsUnknown(ok, path)
		}
		bad := s.clone()
		bad.assume(Not(Eq(e, IntLit(0))))
		bad.assume(Eq(f, IntLit(0)))
		vc.join(s, ok, bad)
		return []*Term{f, e}
	}
	stdModels["os.OpenFile"] = func(vc *VC, s *State, call *ast.CallExpr, args []*Term) []*Term {
		trunc := false
		if call != nil && len(call.Args) == 3 {
			if tv, ok := vc.frame().info.Types[call.Args[1]]; ok && tv.Value != nil && tv.Value.Kind() == constant.Int {
				if v, exact := constant.Int64Val(tv.Value); exact {
					trunc = v&int64(os.O_TRUNC) != 0 && v&int64(os.O_APPEND) == 0
				}
			}
		}
		return open(vc, s, args[0], trunc)
	}
	stdModels["os.Create"] = func(vc *VC, s *State, call *ast.CallExpr, args []*Term) []*Term {
		return open(vc, s, args[0], true)
	}
	stdModels["os.File.Write"] = func(vc *VC, s *State, call *ast.CallExpr, args []*Term) []*Term {
		f := vc.lastRecv
		e := errResult(s)
		n := Fresh("n", SInt)
		s.assume(And(Ge(n, IntLit(0)), Le(n, sliceLen(args[0]))))
		p := Select(vc.fsGhost(s, "$fs.fpath"), f)
		nw := Select(vc.fsGhost(s, "$fs.fnw"), f)
		first := s.clone()
		first.assume(And(Eq(e, IntLit(0)), Eq(nw, IntLit(0))))
		first.assume(Eq(n, sliceLen(args[0])))
		vc.fsSet(first, "$fs.data", p, args[0])
		vc.fsSet(first, "$fs.fnw", f, IntLit(1))
		other := s.clone()
		other.assume(Not(And(Eq(e, IntLit(0)), Eq(nw, IntLit(0)))))
		other.assume(Implies(Eq(e, IntLit(0)), Eq(n, sliceLen(args[0]))))
		vc.fsUnknown(other, p)
		vc.fsSet(other, "$fs.fnw", f, Add(nw, IntLit(1)))
		vc.join(s, first, other)
		return []*Term{n, e}
	}
	stdModels["os.File.Close"] = func(vc *VC, s *State, call *ast.CallExpr, args []*Term) []*Term {
		vc.prog.Assumed["(*os.File).Close: no effect on the ghost file system; returns an error or nil"] = true
		return []*Term{errResult(s)}
	}
	stdModels["os.File.Sync"] = stdModels["os.File.Close"]
}

// fsBuiltin evaluates fsdata(p) / fswhole(p).
func (env *SpecEnv) fsBuiltin(name string, e *SExpr) (TV, bool) {
	switch name {
	case "fsdata":
		return TV{Select(env.vc.fsGhost(env.st, "$fs.data"), env.eval(e.Args[0]).T), byteSliceT}, true
	case "fswhole":
		return TV{Select(env.vc.fsGhost(env.st, "$fs.whole"), env.eval(e.Args[0]).T), types.Typ[types.Bool]}, true
	}
	return TV{}, false
}

// runCallback verifies a function literal used as a value against the `callback ensures` clauses of the contract.
func (vc *VC) runCallback(s *State, lit *ast.FuncLit) {
	if vc.callbacksDone == nil {
		vc.callbacksDone = map[*ast.FuncLit]bool{}
	}
	if vc.callbacksDone[lit] {
		return
	}
	vc.callbacksDone[lit] = true
	vc.callbackCount++
	info := vc.frame().info
	sig := info.TypeOf(lit).(*types.Signature)
	w := s.clone()
	// the literal runs at an unknown later time: arbitrary heap, no frame duties towards the enclosing function
	wasAll, wasQuiet := vc.modAll, vc.quiet
	vc.quiet = true
	vc.havocHeap(w, "callback runs later")
	vc.quiet = wasQuiet
	vc.modAll = true
	// captured variables: keep only those the enclosing function never assigns after their declaration
	var encl ast.Node
	if fd := vc.fn.Decl; fd != nil {
		encl = fd.Body
	}
	assigned := map[types.Object]bool{}
	if encl != nil {
		ast.Inspect(encl, func(n ast.Node) bool {
			switch x := n.(type) {
			case *ast.AssignStmt:
				if x.Tok != token.DEFINE {
					for _, l := range x.Lhs {
						if id, ok := ast.Unparen(l).(*ast.Ident); ok {
							if o := info.ObjectOf(id); o != nil {
								assigned[o] = true
							}
						}
					}
				}
			case *ast.IncDecStmt:
				if id, ok := ast.Unparen(x.X).(*ast.Ident); ok {
					if o := info.ObjectOf(id); o != nil {
						assigned[o] = true
					}
				}
			case *ast.UnaryExpr:
				if x.Op == token.AND {
					if id, ok := ast.Unparen(x.X).(*ast.Ident); ok {
						if o := info.ObjectOf(id); o != nil {
							assigned[o] = true // address taken: may change behind our back
						}
					}
				}
			case *ast.RangeStmt:
				for _, e := range []ast.Expr{x.Key, x.Value} {
					if id, ok := e.(*ast.Ident); ok && e != nil {
						if o := info.ObjectOf(id); o != nil {
							assigned[o] = true
						}
					}
				}
			}
			return true
		})
	}
	for o := range w.env {
		v, ok := o.(*types.Var)
		if !ok {
			continue
		}
		if assigned[o] || vc.boxed[o] {
			if !vc.boxed[o] {
				w.env[o] = vc.loadedDeep(w, v.Type(), Fresh(v.Name(), sortOf(v.Type())), v.Name())
			}
			continue
		}
		// value kept; what it points to is in the (arbitrary) heap: re-establish the type facts
		w.env[o] = vc.loadedDeep(w, v.Type(), w.env[o], v.Name())
	}
	for k := range w.ghost {
		delete(w.ghost, k) // ghost state is per procedure
	}
	for _, k := range []string{"$fs.data", "$fs.whole", "$fs.fpath", "$fs.fnw"} {
		vc.fsGhost(w, k)
	}
	vc.initCallRecords(w, lit.Body, info)
	// parameters
	var args []*Term
	paramTV := map[string]TV{}
	for i := 0; i < sig.Params().Len(); i++ {
		p := sig.Params().At(i)
		v := vc.loadedDeep(w, p.Type(), Fresh(p.Name(), sortOf(p.Type())), p.Name())
		args = append(args, v)
		if p.Name() != "" && p.Name() != "_" {
			paramTV[p.Name()] = TV{v, p.Type()}
		}
	}
	savedPrefix := vc.prefix
	vc.prefix = fmt.Sprintf("callback%d>", vc.callbackCount)
	entry := w.clone()
	parentPanics := len(vc.frame().panics)
	res := vc.inlineLit(w, lit, args, nil)
	// a panic of the callback is the callback's caller's business: not an exit the clauses speak about
	vc.frame().panics = vc.frame().panics[:parentPanics]
	if !w.dead {
		env := &SpecEnv{vc: vc, st: w, old: entry, vars: map[string]TV{}, pkg: vc.fn.Pkg, what: "callback clause of " + shortKey(vc.fn.Key)}
		env.scope = vc.fn.Pkg.Types.Scope().Innermost(lit.Body.Lbrace + 1)
		env.pos = lit.Body.Rbrace
		for k, t := range w.ghost {
			env.vars[k] = TV{t, vc.ghostTypes[k]}
		}
		for n, tv := range paramTV {
			env.vars[n] = tv
		}
		for i := 0; i < sig.Results().Len(); i++ {
			rv := sig.Results().At(i)
			env.vars[fmt.Sprintf("result%d", i)] = TV{res[i], rv.Type()}
			if i == 0 {
				env.vars["result"] = TV{res[i], rv.Type()}
			}
			if rv.Name() != "" && rv.Name() != "_" {
				env.vars[rv.Name()] = TV{res[i], rv.Type()}
			}
		}
		for i, e := range vc.fn.Spec.CallbackEnsures {
			vc.obligeKeep(w, "callback", fmt.Sprintf("ensures:%d", i+1), "function literal passed as a value, normal return: "+e.Src, lit.Pos(), env.evalBool(e))
		}
	}
	vc.prefix = savedPrefix
	vc.modAll = wasAll
}
