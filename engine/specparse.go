package main

// Parser for contract files (//@ lines) and spec expressions.

import (
	"fmt"
	"go/scanner"
	"go/token"
	"os"
	"regexp"
	"strings"
)

type SBinder struct {
	Name string
	Type *SType
}

// SType is a syntactic type in a binder / pure func signature.
type SType struct {
	Ptr   *SType
	Slice *SType
	MapK  *SType
	MapV  *SType
	Pkg   string
	Name  string
}

func (t *SType) String() string {
	switch {
	case t.Ptr != nil:
		return "*" + t.Ptr.String()
	case t.Slice != nil:
		return "[]" + t.Slice.String()
	case t.MapK != nil:
		return "map[" + t.MapK.String() + "]" + t.MapV.String()
	case t.Pkg != "":
		return t.Pkg + "." + t.Name
	}
	return t.Name
}

type SExpr struct {
	K    string // id int str un bin sel idx slice call q
	Name string // id name, selector field, literal text, quantifier kind
	Op   string
	X, Y *SExpr
	Z    *SExpr
	Args []*SExpr
	Vars []SBinder
	Src  string
}

func (e *SExpr) String() string {
	if e == nil {
		return "<nil>"
	}
	switch e.K {
	case "id", "int":
		return e.Name
	case "str":
		return fmt.Sprintf("%q", e.Name)
	case "un":
		return e.Op + e.X.String()
	case "bin":
		return "(" + e.X.String() + " " + e.Op + " " + e.Y.String() + ")"
	case "sel":
		return e.X.String() + "." + e.Name
	case "idx":
		return e.X.String() + "[" + e.Y.String() + "]"
	case "slice":
		return e.X.String() + "[" + e.Y.String() + ":" + e.Z.String() + "]"
	case "call":
		var as []string
		for _, a := range e.Args {
			as = append(as, a.String())
		}
		return e.X.String() + "(" + strings.Join(as, ", ") + ")"
	case "q":
		var vs []string
		for _, v := range e.Vars {
			vs = append(vs, v.Name+" "+v.Type.String())
		}
		return "(" + e.Name + " " + strings.Join(vs, ", ") + " :: " + e.X.String() + ")"
	}
	return "?"
}

// watchRe: callee expressions whose calls a contract refers to through ncalls / callarg / callret
var watchRe = regexp.MustCompile(`(ncalls|callarg|callret|callrecv)\("([^"]+)"`)

var roleAtRe = regexp.MustCompile(`\$[A-Za-z]+@[0-9]+(\.[0-9]+)*`)

type tok struct {
	t   token.Token
	lit string
	pos int
}

type sparser struct {
	toks []tok
	i    int
	src  string
}

func tokenize(src string) ([]tok, error) {
	fset := token.NewFileSet()
	f := fset.AddFile("", fset.Base(), len(src))
	var s scanner.Scanner
	var errs []string
	// '$' and '?' are illegal for go/scanner; we pre-substitute '$' by a marker identifier prefix.
	src = roleAtRe.ReplaceAllStringFunc(src, func(m string) string {
		i := strings.Index(m, "@")
		return m[:i] + "ǁ" + strings.ReplaceAll(m[i+1:], ".", "ǀ")
	})
	src2 := strings.ReplaceAll(src, "$", "ǂ")
	f = fset.AddFile("", fset.Base(), len(src2))
	s.Init(f, []byte(src2), func(pos token.Position, msg string) { errs = append(errs, msg) }, 0)
	var out []tok
	for {
		pos, t, lit := s.Scan()
		if t == token.EOF {
			break
		}
		if t == token.SEMICOLON && lit == "\n" {
			continue
		}
		if t == token.IDENT {
			lit = strings.ReplaceAll(lit, "ǂ", "$")
			lit = strings.ReplaceAll(lit, "ǁ", "@")
			lit = strings.ReplaceAll(lit, "ǀ", ".")
		}
		out = append(out, tok{t, lit, int(pos)})
	}
	if len(errs) > 0 {
		return nil, fmt.Errorf("scan error in %q: %s", src, strings.Join(errs, "; "))
	}
	return out, nil
}

func parseSpecExpr(src string) (e *SExpr, err error) {
	toks, err := tokenize(src)
	if err != nil {
		return nil, err
	}
	p := &sparser{toks: toks, src: src}
	defer func() {
		if r := recover(); r != nil {
			if s, ok := r.(specErr); ok {
				err = fmt.Errorf("spec parse error in %q: %s", src, string(s))
				return
			}
			panic(r)
		}
	}()
	e = p.expr()
	if p.i < len(p.toks) {
		p.fail("unexpected token " + p.toks[p.i].t.String() + " " + p.toks[p.i].lit)
	}
	e.Src = src
	return e, nil
}

type specErr string

func (p *sparser) fail(msg string) { panic(specErr(msg)) }

func (p *sparser) peek() token.Token {
	if p.i >= len(p.toks) {
		return token.EOF
	}
	return p.toks[p.i].t
}
func (p *sparser) peekAt(k int) token.Token {
	if p.i+k >= len(p.toks) {
		return token.EOF
	}
	return p.toks[p.i+k].t
}
func (p *sparser) adjacent(k int) bool { // tokens i+k-1 and i+k are adjacent in source
	if p.i+k >= len(p.toks) {
		return false
	}
	a, b := p.toks[p.i+k-1], p.toks[p.i+k]
	return a.pos+len(a.t.String()) == b.pos
}
func (p *sparser) next() tok {
	if p.i >= len(p.toks) {
		p.fail("unexpected end")
	}
	t := p.toks[p.i]
	p.i++
	return t
}
func (p *sparser) expect(t token.Token) tok {
	x := p.next()
	if x.t != t {
		p.fail("expected " + t.String() + " got " + x.t.String() + " " + x.lit)
	}
	return x
}

func (p *sparser) expr() *SExpr {
	// quantifier
	if p.peek() == token.IDENT && (p.toks[p.i].lit == "forall" || p.toks[p.i].lit == "exists") && p.peekAt(1) == token.IDENT {
		kind := p.next().lit
		var vars []SBinder
		for {
			var names []string
			names = append(names, p.expect(token.IDENT).lit)
			for p.peek() == token.COMMA {
				p.next()
				names = append(names, p.expect(token.IDENT).lit)
			}
			ty := p.typ()
			for _, n := range names {
				vars = append(vars, SBinder{n, ty})
			}
			if p.peek() == token.SEMICOLON {
				p.next()
				continue
			}
			break
		}
		p.expect(token.COLON)
		p.expect(token.COLON)
		body := p.expr()
		return &SExpr{K: "q", Name: kind, Vars: vars, X: body}
	}
	return p.impl()
}

func (p *sparser) typ() *SType {
	switch p.peek() {
	case token.MUL:
		p.next()
		return &SType{Ptr: p.typ()}
	case token.LBRACK:
		p.next()
		p.expect(token.RBRACK)
		return &SType{Slice: p.typ()}
	case token.MAP:
		p.next()
		p.expect(token.LBRACK)
		k := p.typ()
		p.expect(token.RBRACK)
		return &SType{MapK: k, MapV: p.typ()}
	case token.IDENT:
		n := p.next().lit
		if p.peek() == token.PERIOD {
			p.next()
			m := p.expect(token.IDENT).lit
			return &SType{Pkg: n, Name: m}
		}
		return &SType{Name: n}
	}
	p.fail("type expected")
	return nil
}

func (p *sparser) isImplies() (string, int) {
	// "==>" : EQL GTR adjacent ; "<==>" : LSS EQL GTR ; scanner gives "<=" "=>"? "<==>" scans as LEQ(<=) ASSIGN? handle "<==>" as LEQ, EQL? keep simple.
	if p.peek() == token.EQL && p.peekAt(1) == token.GTR && p.adjacent(1) {
		return "==>", 2
	}
	if p.peek() == token.LEQ && p.peekAt(1) == token.GEQ && p.adjacent(1) { // "<==>" scans as "<=" "=>"? no: "<=", "=", ">"...
		return "<==>", 2
	}
	if p.peek() == token.LEQ && p.peekAt(1) == token.ASSIGN && p.peekAt(2) == token.GTR && p.adjacent(1) && p.adjacent(2) {
		return "<==>", 3
	}
	return "", 0
}

func (p *sparser) impl() *SExpr {
	l := p.or()
	if o, n := p.isImplies(); n > 0 {
		p.i += n
		var r *SExpr
		// right side may itself be a quantifier
		r = p.exprNoTop()
		return &SExpr{K: "bin", Op: o, X: l, Y: r}
	}
	return l
}

func (p *sparser) exprNoTop() *SExpr { return p.expr() }

func (p *sparser) or() *SExpr {
	l := p.and()
	for p.peek() == token.LOR {
		p.next()
		r := p.and()
		l = &SExpr{K: "bin", Op: "||", X: l, Y: r}
	}
	return l
}
func (p *sparser) and() *SExpr {
	l := p.cmp()
	for p.peek() == token.LAND {
		p.next()
		r := p.cmp()
		l = &SExpr{K: "bin", Op: "&&", X: l, Y: r}
	}
	return l
}
func (p *sparser) cmp() *SExpr {
	l := p.add()
	for {
		switch p.peek() {
		case token.EQL:
			if p.peekAt(1) == token.GTR && p.adjacent(1) {
				return l
			}
			fallthrough
		case token.NEQ, token.LSS, token.GTR, token.GEQ:
			o := p.next()
			r := p.add()
			l = &SExpr{K: "bin", Op: o.t.String(), X: l, Y: r}
		case token.LEQ:
			if _, n := p.isImplies(); n > 0 {
				return l
			}
			p.next()
			r := p.add()
			l = &SExpr{K: "bin", Op: "<=", X: l, Y: r}
		default:
			return l
		}
	}
}
func (p *sparser) add() *SExpr {
	l := p.mul()
	for p.peek() == token.ADD || p.peek() == token.SUB {
		o := p.next()
		r := p.mul()
		l = &SExpr{K: "bin", Op: o.t.String(), X: l, Y: r}
	}
	return l
}
func (p *sparser) mul() *SExpr {
	l := p.unary()
	for p.peek() == token.MUL || p.peek() == token.QUO || p.peek() == token.REM {
		o := p.next()
		r := p.unary()
		l = &SExpr{K: "bin", Op: o.t.String(), X: l, Y: r}
	}
	return l
}
func (p *sparser) unary() *SExpr {
	switch p.peek() {
	case token.NOT, token.SUB, token.MUL:
		o := p.next()
		x := p.unary()
		return &SExpr{K: "un", Op: o.t.String(), X: x}
	}
	return p.postfix()
}
func (p *sparser) postfix() *SExpr {
	x := p.primary()
	for {
		switch p.peek() {
		case token.PERIOD:
			p.next()
			n := p.expect(token.IDENT).lit
			x = &SExpr{K: "sel", X: x, Name: n}
		case token.LBRACK:
			p.next()
			var lo *SExpr
			if p.peek() != token.COLON {
				lo = p.expr()
			}
			if p.peek() == token.COLON {
				p.next()
				var hi *SExpr
				if p.peek() != token.RBRACK {
					hi = p.expr()
				}
				p.expect(token.RBRACK)
				x = &SExpr{K: "slice", X: x, Y: lo, Z: hi}
			} else {
				p.expect(token.RBRACK)
				x = &SExpr{K: "idx", X: x, Y: lo}
			}
		case token.LPAREN:
			p.next()
			var args []*SExpr
			for p.peek() != token.RPAREN {
				args = append(args, p.expr())
				if p.peek() == token.COMMA {
					p.next()
				}
			}
			p.expect(token.RPAREN)
			x = &SExpr{K: "call", X: x, Args: args}
		default:
			return x
		}
	}
}
func (p *sparser) primary() *SExpr {
	if p.peek() == token.IDENT && (p.toks[p.i].lit == "forall" || p.toks[p.i].lit == "exists") && p.peekAt(1) == token.IDENT {
		return p.expr()
	}
	t := p.next()
	switch t.t {
	case token.IDENT:
		return &SExpr{K: "id", Name: t.lit}
	case token.INT:
		return &SExpr{K: "int", Name: t.lit}
	case token.CHAR:
		r := []rune(strings.Trim(t.lit, "'"))
		if len(r) == 1 {
			return &SExpr{K: "int", Name: fmt.Sprint(int(r[0]))}
		}
		p.fail("unsupported char literal " + t.lit)
	case token.STRING:
		s := t.lit
		if strings.HasPrefix(s, "`") {
			s = s[1 : len(s)-1]
		} else {
			var err error
			s, err = unquote(s)
			if err != nil {
				p.fail("bad string literal")
			}
		}
		return &SExpr{K: "str", Name: s}
	case token.LPAREN:
		e := p.expr()
		p.expect(token.RPAREN)
		return e
	case token.FUNC, token.RANGE, token.MAP:
		return &SExpr{K: "id", Name: t.t.String()}
	}
	p.fail("unexpected token " + t.t.String() + " " + t.lit)
	return nil
}

func unquote(s string) (string, error) {
	var out string
	_, err := fmt.Sscanf(s, "%q", &out)
	return out, err
}

// ---------- contract files ----------

type LoopSpec struct {
	Steps      []*SExpr // transition clauses: checked at the end of every iteration, may use pre(e) = e at its start
	Invariants []*SExpr
	Decreases  *SExpr
	Modifies   []*SExpr
}

type FuncSpec struct {
	Key             string // pkgpath.Recv.Name or pkgpath.Name
	Requires        []*SExpr
	Ensures         []*SExpr
	Modifies        []*SExpr
	ModAll          bool // modifies *
	Decreases       *SExpr
	Loops           map[string]*LoopSpec
	Trusted         bool // contract assumed, body not verified
	Inline          bool
	NoVerify        bool
	Pure            bool // modifies nothing and result is a function of args+heap (trusted/extern use)
	MayPanic        bool // explicit panics are part of the contract (not an obligation)
	KFs             []KFAssume
	Propagates      bool
	DeferredHandler bool
	WorkerEnsures   []*SExpr
	CallbackEnsures []*SExpr        // checked on every normal return of a function literal used as a value
	WatchCalls      map[string]bool // callee expressions whose calls are recorded (ghost call records)
	Local           map[*SExpr]bool // postconditions not exported to other callers (clause `proves`)
	ChanNonNil      bool
	SiteKFs         map[string][]KFAssume
	Asserts         map[string][]*SExpr // site key -> assertions
	File            string
	Line            int
}

type KFAssume struct {
	ID   string
	Expr *SExpr
}

type PureFunc struct {
	Name   string
	Params []SBinder
	Ret    *SType
	Body   *SExpr
	Pkg    string
	// ghost functions (see ghostfn.go): may be recursive and read the heap; an uninterpreted symbol plus a definition
	Ghost       bool
	arrays      []string // heap arrays the body reads, in order (arguments of the symbol before the parameters)
	ready       bool
	discovering bool
	recursive   bool
}

type ContractFile struct {
	PkgPath string
	Funcs   []*FuncSpec
	Pures   []*PureFunc
	Axioms  []NamedExpr
}

type NamedExpr struct {
	Name string
	Expr *SExpr
}

func parseContractFile(path, pkgPath string) (*ContractFile, error) {
	data, err := os.ReadFile(path)
	if err != nil {
		return nil, err
	}
	cf := &ContractFile{PkgPath: pkgPath}
	var lines []struct {
		s  string
		ln int
	}
	for i, l := range strings.Split(string(data), "\n") {
		l = strings.TrimSpace(l)
		if !strings.HasPrefix(l, "//@") {
			continue
		}
		body := strings.TrimSpace(l[3:])
		if body == "" {
			continue
		}
		if strings.HasPrefix(body, "|") && len(lines) > 0 {
			lines[len(lines)-1].s += " " + strings.TrimSpace(body[1:])
			continue
		}
		if strings.HasPrefix(body, "#") {
			continue
		}
		lines = append(lines, struct {
			s  string
			ln int
		}{body, i + 1})
	}
	var cur *FuncSpec
	for _, l := range lines {
		fail := func(e error) error { return fmt.Errorf("%s:%d: %v", path, l.ln, e) }
		word, rest := splitWord(l.s)
		switch word {
		case "func", "extern":
			key, err := parseFuncKey(rest, pkgPath)
			if err != nil {
				return nil, fail(err)
			}
			cur = &FuncSpec{Key: key, Loops: map[string]*LoopSpec{}, Asserts: map[string][]*SExpr{}, File: path, Line: l.ln}
			if word == "extern" {
				cur.Trusted = true
			}
			cf.Funcs = append(cf.Funcs, cur)
		case "pure":
			if !strings.HasPrefix(rest, "func") {
				if cur == nil {
					return nil, fail(fmt.Errorf("clause pure outside func"))
				}
				cur.Pure = true
				continue
			}
			pf, err := parsePureFunc(rest)
			if err != nil {
				return nil, fail(err)
			}
			pf.Pkg = pkgPath
			cf.Pures = append(cf.Pures, pf)
			cur = nil
		case "ghost":
			pf, err := parsePureFunc(rest)
			if err != nil {
				return nil, fail(err)
			}
			pf.Pkg = pkgPath
			pf.Ghost = true
			cf.Pures = append(cf.Pures, pf)
			cur = nil
		case "axiom":
			name, ex := splitWord(rest)
			name = strings.TrimSuffix(name, ":")
			e, err := parseSpecExpr(ex)
			if err != nil {
				return nil, fail(err)
			}
			cf.Axioms = append(cf.Axioms, NamedExpr{name, e})
			cur = nil
		default:
			if cur == nil {
				return nil, fail(fmt.Errorf("clause %q outside func", word))
			}
			if err := parseClause(cur, word, rest); err != nil {
				return nil, fail(err)
			}
			for _, m := range watchRe.FindAllStringSubmatch(rest, -1) {
				if cur.WatchCalls == nil {
					cur.WatchCalls = map[string]bool{}
				}
				cur.WatchCalls[m[2]] = true
			}
		}
	}
	return cf, nil
}

func splitWord(s string) (string, string) {
	s = strings.TrimSpace(s)
	i := strings.IndexAny(s, " \t")
	if i < 0 {
		return s, ""
	}
	return s[:i], strings.TrimSpace(s[i+1:])
}

// parseFuncKey parses "(recv *T) Name(...)" / "(T) Name" / "Name" / "pkg/path.T.Name"
func parseFuncKey(s, pkgPath string) (string, error) {
	s = strings.TrimSpace(s)
	recv := ""
	if strings.HasPrefix(s, "(") {
		j := strings.Index(s, ")")
		if j < 0 {
			return "", fmt.Errorf("bad receiver")
		}
		r := strings.TrimSpace(s[1:j])
		fs := strings.Fields(r)
		r = fs[len(fs)-1]
		recv = strings.TrimPrefix(r, "*")
		s = strings.TrimSpace(s[j+1:])
	}
	name := s
	if j := strings.IndexAny(s, "( \t"); j >= 0 {
		name = s[:j]
	}
	if name == "" {
		return "", fmt.Errorf("missing function name")
	}
	if strings.Contains(name, "/") || strings.Count(name, ".") >= 1 && recv == "" {
		// fully qualified: path.Type.Name or path.Name  (path may contain dots/slashes)
		return name, nil
	}
	if recv != "" {
		return pkgPath + "." + recv + "." + name, nil
	}
	return pkgPath + "." + name, nil
}

func parseClause(f *FuncSpec, word, rest string) error {
	switch word {
	case "requires", "ensures", "decreases", "proves":
		e, err := parseSpecExpr(rest)
		if err != nil {
			return err
		}
		switch word {
		case "requires":
			f.Requires = append(f.Requires, e)
		case "proves":
			// a postcondition that is proved on the body but not handed to callers (other than the function itself,
			// which needs it as induction hypothesis): keeps heavy specification vocabulary out of the callers' VCs
			f.Ensures = append(f.Ensures, e)
			if f.Local == nil {
				f.Local = map[*SExpr]bool{}
			}
			f.Local[e] = true
		case "ensures":
			f.Ensures = append(f.Ensures, e)
		case "decreases":
			f.Decreases = e
		}
	case "modifies":
		if strings.TrimSpace(rest) == "*" {
			f.ModAll = true
			return nil
		}
		es, err := parseExprList(rest)
		if err != nil {
			return err
		}
		f.Modifies = append(f.Modifies, es...)
	case "worker":
		w, r2 := splitWord(rest)
		if w != "ensures" {
			return fmt.Errorf("worker: expected ensures")
		}
		e, err := parseSpecExpr(r2)
		if err != nil {
			return err
		}
		f.WorkerEnsures = append(f.WorkerEnsures, e)
	case "callback":
		w, r2 := splitWord(rest)
		if w != "ensures" {
			return fmt.Errorf("callback: expected ensures")
		}
		e, err := parseSpecExpr(r2)
		if err != nil {
			return err
		}
		f.CallbackEnsures = append(f.CallbackEnsures, e)
	case "propagates":
		f.Propagates = true
	case "deferred-handler":
		f.DeferredHandler = true
	case "chan-values-nonnil":
		f.ChanNonNil = true
	case "trusted":
		f.Trusted = true
	case "inline":
		f.Inline = true
	case "pure":
		f.Pure = true
	case "maypanic":
		f.MayPanic = true
	case "loop":
		path, r2 := splitWord(rest)
		kind, r3 := splitWord(r2)
		ls := f.Loops[path]
		if ls == nil {
			ls = &LoopSpec{}
			f.Loops[path] = ls
		}
		switch kind {
		case "invariant":
			e, err := parseSpecExpr(r3)
			if err != nil {
				return err
			}
			ls.Invariants = append(ls.Invariants, e)
		case "step":
			e, err := parseSpecExpr(r3)
			if err != nil {
				return err
			}
			ls.Steps = append(ls.Steps, e)
		case "decreases":
			e, err := parseSpecExpr(r3)
			if err != nil {
				return err
			}
			ls.Decreases = e
		case "modifies":
			es, err := parseExprList(r3)
			if err != nil {
				return err
			}
			ls.Modifies = append(ls.Modifies, es...)
		default:
			return fmt.Errorf("unknown loop clause %q", kind)
		}
	case "assume-known-finding":
		id, r2 := splitWord(rest)
		id = strings.TrimSuffix(id, ":")
		e, err := parseSpecExpr(r2)
		if err != nil {
			return err
		}
		f.KFs = append(f.KFs, KFAssume{id, e})
	case "site":
		// site <kind>:<text up to " assert"/" assume-known-finding"> ...   e.g.  site assign:fm.index[renamed] assert !inDom(...)
		var key, w, r3 string
		if i := strings.Index(rest, " assert "); i >= 0 {
			key, w, r3 = strings.TrimSpace(rest[:i]), "assert", rest[i+8:]
		} else if i := strings.Index(rest, " assume-known-finding "); i >= 0 {
			key, w, r3 = strings.TrimSpace(rest[:i]), "kf", rest[i+22:]
		} else {
			return fmt.Errorf("site: expected assert or assume-known-finding")
		}
		if w == "kf" {
			id, r4 := splitWord(r3)
			id = strings.TrimSuffix(id, ":")
			e, err := parseSpecExpr(r4)
			if err != nil {
				return err
			}
			if f.SiteKFs == nil {
				f.SiteKFs = map[string][]KFAssume{}
			}
			f.SiteKFs[key] = append(f.SiteKFs[key], KFAssume{id, e})
			return nil
		}
		e, err := parseSpecExpr(r3)
		if err != nil {
			return err
		}
		f.Asserts[key] = append(f.Asserts[key], e)
	default:
		return fmt.Errorf("unknown clause %q", word)
	}
	return nil
}

func parseExprList(s string) ([]*SExpr, error) {
	// split on top-level commas
	var parts []string
	depth := 0
	last := 0
	for i, c := range s {
		switch c {
		case '(', '[':
			depth++
		case ')', ']':
			depth--
		case ',':
			if depth == 0 {
				parts = append(parts, s[last:i])
				last = i + 1
			}
		}
	}
	parts = append(parts, s[last:])
	var out []*SExpr
	for _, p := range parts {
		p = strings.TrimSpace(p)
		if p == "" {
			continue
		}
		e, err := parseSpecExpr(p)
		if err != nil {
			return nil, err
		}
		out = append(out, e)
	}
	return out, nil
}

// parsePureFunc parses:  func name(a T, b U) R { return E }
func parsePureFunc(s string) (*PureFunc, error) {
	w, rest := splitWord(s)
	if w != "func" {
		return nil, fmt.Errorf("pure: expected func")
	}
	i := strings.Index(rest, "(")
	if i < 0 {
		return nil, fmt.Errorf("pure func: missing (")
	}
	name := strings.TrimSpace(rest[:i])
	// find matching paren
	depth := 0
	j := i
	for ; j < len(rest); j++ {
		if rest[j] == '(' {
			depth++
		} else if rest[j] == ')' {
			depth--
			if depth == 0 {
				break
			}
		}
	}
	params := rest[i+1 : j]
	after := strings.TrimSpace(rest[j+1:])
	k := strings.Index(after, "{")
	if k < 0 {
		return nil, fmt.Errorf("pure func: missing body")
	}
	retS := strings.TrimSpace(after[:k])
	body := strings.TrimSpace(after[k+1:])
	body = strings.TrimSuffix(strings.TrimSpace(body), "}")
	body = strings.TrimSpace(body)
	body = strings.TrimPrefix(body, "return")
	pf := &PureFunc{Name: name}
	// params: "a, b T, c U"
	toks, err := tokenize(params)
	if err != nil {
		return nil, err
	}
	p := &sparser{toks: toks, src: params}
	var perr error
	func() {
		defer func() {
			if r := recover(); r != nil {
				perr = fmt.Errorf("pure func params: %v", r)
			}
		}()
		for p.peek() != token.EOF {
			var names []string
			names = append(names, p.expect(token.IDENT).lit)
			for p.peek() == token.COMMA {
				p.next()
				names = append(names, p.expect(token.IDENT).lit)
			}
			ty := p.typ()
			for _, n := range names {
				pf.Params = append(pf.Params, SBinder{n, ty})
			}
			if p.peek() == token.COMMA {
				p.next()
			}
		}
		rt, err := tokenize(retS)
		if err != nil {
			perr = err
			return
		}
		p2 := &sparser{toks: rt, src: retS}
		pf.Ret = p2.typ()
	}()
	if perr != nil {
		return nil, perr
	}
	e, err := parseSpecExpr(body)
	if err != nil {
		return nil, err
	}
	pf.Body = e
	return pf, nil
}
