package main

// Assumed contracts ("models") for library functions. Every model used is listed in the evidence.

import (
	"fmt"
	"go/ast"
	"go/constant"
	"go/types"
	"strings"
)

type stdModel func(vc *VC, s *State, call *ast.CallExpr, args []*Term) []*Term

var stdModels map[string]stdModel

var stdDocs = map[string]string{
	"fmt.Sprintf":          "fmt.Sprintf: pure; for a literal format and value arguments the result is a deterministic function of the arguments; nothing is modified",
	"fmt.Errorf":           "fmt.Errorf: returns a non-nil error; nothing is modified",
	"errors.New":           "errors.New: returns a non-nil error; nothing is modified",
	"strings.HasPrefix":    "strings.HasPrefix(s, p) reports whether s begins with p",
	"strings.HasSuffix":    "strings.HasSuffix(s, p) reports whether s ends with p",
	"strings.TrimSuffix":   "strings.TrimSuffix: pure function of its arguments, result no longer than s",
	"strings.TrimPrefix":   "strings.TrimPrefix: pure function of its arguments, result no longer than s",
	"strings.SplitN":       "strings.SplitN(s, sep, n) with n>0 and sep non-empty: 1..n pieces; 1 piece (== s) iff sep does not occur; with n == 2 and sep occurring: s == p0 + sep + p1 and sep does not occur in p0",
	"strings.LastIndex":    "strings.LastIndex(s, sub): -1 iff sub does not occur, else the greatest i with s[i:i+len(sub)] == sub",
	"strings.Index":        "strings.Index(s, sub): -1 iff sub does not occur, else the least i with s[i:i+len(sub)] == sub",
	"strings.Contains":     "strings.Contains(s, sub) == (strings.Index(s, sub) >= 0)",
	"path/filepath.Ext":    "filepath.Ext: pure function of its argument; result is a suffix of the path",
	"strconv.Itoa":         "strconv.Itoa: pure, injective",
	"math.Float64bits":     "math.Float64bits: bijection float64 <-> uint64",
	"math.Float64frombits": "math.Float64frombits: inverse of Float64bits",
}

func init() {
	stdModels = map[string]stdModel{
		"fmt.Sprintf": func(vc *VC, s *State, call *ast.CallExpr, args []*Term) []*Term {
			return []*Term{vc.sprintfModel(s, call, "fmt.Sprintf")}
		},
		"fmt.Sprint": func(vc *VC, s *State, call *ast.CallExpr, args []*Term) []*Term {
			vc.prog.Assumed["fmt.Sprint: pure; result unconstrained"] = true
			return []*Term{Fresh("sprint", SStr)}
		},
		"fmt.Errorf": func(vc *VC, s *State, call *ast.CallExpr, args []*Term) []*Term {
			vc.prog.Assumed[stdDocs["fmt.Errorf"]] = true
			e := Fresh("err", SInt)
			s.assume(Gt(e, IntLit(0)))
			return []*Term{e}
		},
		"errors.New": func(vc *VC, s *State, call *ast.CallExpr, args []*Term) []*Term {
			vc.prog.Assumed[stdDocs["errors.New"]] = true
			e := Fresh("err", SInt)
			s.assume(Gt(e, IntLit(0)))
			return []*Term{e}
		},
		"strings.HasPrefix": func(vc *VC, s *State, call *ast.CallExpr, args []*Term) []*Term {
			vc.prog.Assumed[stdDocs["strings.HasPrefix"]] = true
			return []*Term{App("sx.prefixof", SBool, args[1], args[0])}
		},
		"strings.HasSuffix": func(vc *VC, s *State, call *ast.CallExpr, args []*Term) []*Term {
			vc.prog.Assumed[stdDocs["strings.HasSuffix"]] = true
			r := App("sx.suffixof", SBool, args[1], args[0])
			s.assume(Implies(r, Le(strLen(args[1]), strLen(args[0]))))
			return []*Term{r}
		},
		"strings.TrimSuffix": func(vc *VC, s *State, call *ast.CallExpr, args []*Term) []*Term {
			vc.prog.Assumed[stdDocs["strings.TrimSuffix"]] = true
			r := App("std.strings.TrimSuffix", SStr, args...)
			s.assume(And(Le(strLen(r), strLen(args[0])), Ge(strLen(r), IntLit(0))))
			return []*Term{r}
		},
		"strings.TrimPrefix": func(vc *VC, s *State, call *ast.CallExpr, args []*Term) []*Term {
			vc.prog.Assumed[stdDocs["strings.TrimPrefix"]] = true
			r := App("std.strings.TrimPrefix", SStr, args...)
			s.assume(And(Le(strLen(r), strLen(args[0])), Ge(strLen(r), IntLit(0))))
			return []*Term{r}
		},
		"path/filepath.Ext": func(vc *VC, s *State, call *ast.CallExpr, args []*Term) []*Term {
			vc.prog.Assumed[stdDocs["path/filepath.Ext"]] = true
			r := App("std.filepath.Ext", SStr, args...)
			s.assume(And(Le(strLen(r), strLen(args[0])), Ge(strLen(r), IntLit(0))))
			return []*Term{r}
		},
		"strings.LastIndex": func(vc *VC, s *State, call *ast.CallExpr, args []*Term) []*Term {
			return []*Term{vc.indexModel(s, args[0], args[1], true)}
		},
		"strings.Index": func(vc *VC, s *State, call *ast.CallExpr, args []*Term) []*Term {
			return []*Term{vc.indexModel(s, args[0], args[1], false)}
		},
		"strings.Contains": func(vc *VC, s *State, call *ast.CallExpr, args []*Term) []*Term {
			vc.prog.Assumed[stdDocs["strings.Contains"]] = true
			return []*Term{Ge(vc.indexModel(s, args[0], args[1], false), IntLit(0))}
		},
		"runtime.GOMAXPROCS": func(vc *VC, s *State, call *ast.CallExpr, args []*Term) []*Term {
			vc.prog.Assumed["runtime.GOMAXPROCS returns the previous setting, a positive number; no effect on program state"] = true
			r := Fresh("gomaxprocs", SInt)
			s.assume(And(Ge(r, IntLit(1)), Le(r, BigLit("9223372036854775807"))))
			return []*Term{r}
		},
		"os.Getwd": func(vc *VC, s *State, call *ast.CallExpr, args []*Term) []*Term {
			vc.prog.Assumed["os.Getwd: no effect on program state; result unconstrained"] = true
			e := Fresh("err", SInt)
			s.assume(Ge(e, IntLit(0)))
			return []*Term{Fresh("wd", SStr), e}
		},
		"strings.Join": func(vc *VC, s *State, call *ast.CallExpr, args []*Term) []*Term {
			vc.prog.Assumed["strings.Join(elems, sep): pure; the result is at least (len(elems)-1)*len(sep) long"] = true
			r := App("std.strings.Join", SStr, args...)
			n := sliceLen(args[0])
			// linear consequences only (no non-linear arithmetic): for n >= 2 the result contains sep at least once
			s.assume(And(Ge(strLen(r), IntLit(0)), Implies(Ge(n, IntLit(2)), Ge(strLen(r), strLen(args[1])))))
			return []*Term{r}
		},
		"os/exec.CommandContext":   newCmdModel,
		"os/exec.Command":          newCmdModel,
		"context.Background":       nonNilResult(1, "context.Background returns a non-nil context"),
		"context.WithTimeout":      nonNilResult(2, "context.WithTimeout returns a non-nil context and a non-nil cancel function"),
		"bytes.NewReader":          nonNilResult(1, "bytes.NewReader returns a non-nil reader"),
		"bytes.NewBuffer":          nonNilResult(1, "bytes.NewBuffer returns a non-nil buffer"),
		"strings.NewReplacer":      nonNilResult(1, "strings.NewReplacer returns a replacer; no effect on program state"),
		"strings.Replacer.Replace": opaqueNoEffect("(*strings.Replacer).Replace: no effect on program state; result unconstrained"),
		"log.Printf":               opaqueNoEffect("log.Printf/Println/Print: write to the log output; no effect on program state"),
		"log.Println":              opaqueNoEffect("log.Printf/Println/Print: write to the log output; no effect on program state"),
		"log.Print":                opaqueNoEffect("log.Printf/Println/Print: write to the log output; no effect on program state"),
		"bytes.Buffer.String":      opaqueNoEffect("(*bytes.Buffer).String: no effect on program state; result unconstrained"),
		"bytes.Buffer.Bytes":       opaqueNoEffect("(*bytes.Buffer).Bytes: no effect on program state; result unconstrained"),
		"bytes.Buffer.Len":         opaqueNoEffect("(*bytes.Buffer).Len: no effect on program state; result unconstrained"),
		"os/exec.Cmd.Run":          opaqueNoEffect("(*exec.Cmd).Run: runs the external process; writes only the Stdout/Stderr writers it was given (library buffers); returns an error or nil"),
		"bytes.HasSuffix": func(vc *VC, s *State, call *ast.CallExpr, args []*Term) []*Term {
			vc.prog.Assumed["bytes.HasSuffix(a, b): len(a) >= len(b) and the last len(b) bytes of a equal b"] = true
			a, b := args[0], args[1]
			la, lb := sliceLen(a), sliceLen(b)
			i := BoundVar("hi", SInt)
			eqs := Forall([]*Term{i}, Implies(And(Le(IntLit(0), i), Lt(i, lb)), Eq(Select(sliceElems(a), Add(Sub(la, lb), i)), Select(sliceElems(b), i))))
			r := Fresh("hassuffix", SBool)
			s.assume(Eq(r, And(Ge(la, lb), eqs)))
			return []*Term{r}
		},
		"os.Exit": func(vc *VC, s *State, call *ast.CallExpr, args []*Term) []*Term {
			vc.prog.Assumed["os.Exit(n) terminates the process with status n"] = true
			s.ghost["$exited"] = True
			s.ghost["$exitcode"] = args[0]
			vc.ghostTypes["$exited"] = types.Typ[types.Bool]
			vc.ghostTypes["$exitcode"] = types.Typ[types.Int]
			return nil
		},
		"strings.Split": func(vc *VC, s *State, call *ast.CallExpr, args []*Term) []*Term {
			vc.prog.Assumed["strings.Split(s, sep) with non-empty sep: at least one piece; the last piece is s after the last occurrence of sep (s itself if sep does not occur)"] = true
			T := types.NewSlice(types.Typ[types.String])
			res := vc.loaded(s, T, App("std.strings.Split", sortOf(T), args...), "parts")
			s.assume(Not(Sel(res, "isnil")))
			s.assume(Implies(Gt(strLen(args[1]), IntLit(0)), And(Ge(sliceLen(res), IntLit(1)), Eq(Select(sliceElems(res), Sub(sliceLen(res), IntLit(1))), lastSegTerm(args[0], args[1])))))
			return []*Term{res}
		},
		"strings.SplitN": func(vc *VC, s *State, call *ast.CallExpr, args []*Term) []*Term {
			return []*Term{vc.splitNModel(s, call, args)}
		},
		"strconv.Itoa": func(vc *VC, s *State, call *ast.CallExpr, args []*Term) []*Term {
			vc.prog.Assumed[stdDocs["strconv.Itoa"]] = true
			r := App("std.strconv.Itoa", SStr, args[0])
			s.assume(Eq(App("std.strconv.Itoa.inv", SInt, r), args[0]))
			s.assume(Gt(strLen(r), IntLit(0)))
			return []*Term{r}
		},
		"math.Float64bits": func(vc *VC, s *State, call *ast.CallExpr, args []*Term) []*Term {
			vc.prog.Assumed[stdDocs["math.Float64bits"]] = true
			r := App("flt.bits", SInt, args[0])
			s.assume(And(Le(IntLit(0), r), Le(r, BigLit("18446744073709551615"))))
			s.assume(Eq(App("flt.frombits", SFloat, r), args[0]))
			return []*Term{r}
		},
		"math.Float64frombits": func(vc *VC, s *State, call *ast.CallExpr, args []*Term) []*Term {
			vc.prog.Assumed[stdDocs["math.Float64frombits"]] = true
			r := App("flt.frombits", SFloat, args[0])
			s.assume(Eq(App("flt.bits", SInt, r), args[0]))
			return []*Term{r}
		},
	}
}

// indexModel: strings.Index / LastIndex; the occurrence characterisation is a background axiom (sorts.go).
func (vc *VC) indexModel(s *State, str, sub *Term, last bool) *Term {
	name := "std.strings.Index"
	doc := stdDocs["strings.Index"]
	if last {
		name = "std.strings.LastIndex"
		doc = stdDocs["strings.LastIndex"]
	}
	vc.prog.Assumed[doc] = true
	return App(name, SInt, str, sub)
}

// splitNModel models strings.SplitN for a constant n >= 1.
func (vc *VC) splitNModel(s *State, call *ast.CallExpr, args []*Term) *Term {
	vc.prog.Assumed[stdDocs["strings.SplitN"]] = true
	srt := sortOf(types.NewSlice(types.Typ[types.String]))
	n, ok := intConst(args[2])
	res := vc.loaded(s, types.NewSlice(types.Typ[types.String]), App("std.strings.SplitN", srt, args...), "parts")
	l := sliceLen(res)
	s.assume(Not(Sel(res, "isnil")))
	if !ok || n < 1 {
		s.assume(Ge(l, IntLit(0)))
		return res
	}
	str, sep := args[0], args[1]
	s.assume(And(Ge(l, IntLit(1)), Le(l, IntLit(n))))
	occurs := Ge(vc.indexModel(s, str, sep, false), IntLit(0))
	p0 := Select(sliceElems(res), IntLit(0))
	s.assume(Implies(Eq(l, IntLit(1)), Eq(p0, str)))
	if n == 2 {
		p1 := Select(sliceElems(res), IntLit(1))
		idx := App("std.strings.Index", SInt, str, sep)
		s.assume(Eq(Eq(l, IntLit(2)), occurs))
		s.assume(Implies(Eq(l, IntLit(2)), And(
			Eq(str, strConcat(p0, strConcat(sep, p1))),
			Eq(p0, strSub(str, IntLit(0), idx)),
			Eq(p1, strSub(str, Add(idx, strLen(sep)), strLen(str))),
			Eq(strLen(p0), idx))))
	} else {
		s.assume(Implies(Not(occurs), Eq(l, IntLit(1))))
	}
	return res
}

func (vc *VC) sprintfModel(s *State, call *ast.CallExpr, fname string) *Term {
	vc.prog.Assumed[stdDocs["fmt.Sprintf"]] = true
	info := vc.frame().info
	tv, ok := info.Types[call.Args[0]]
	if !ok || tv.Value == nil || tv.Value.Kind() != constant.String {
		for _, a := range call.Args {
			vc.eval(s, a)
		}
		return Fresh("sprintf", SStr)
	}
	format := constant.StringVal(tv.Value)
	var args []*Term
	det := true
	for _, a := range call.Args[1:] {
		t := vc.typeOf(a)
		v := vc.eval(s, a)
		switch u := t.Underlying().(type) {
		case *types.Basic:
			args = append(args, v)
		case *types.Slice:
			if b, ok := u.Elem().Underlying().(*types.Basic); ok && b.Kind() != types.UnsafePointer {
				args = append(args, v)
			} else {
				det = false
			}
		default:
			_ = u
			det = false
		}
	}
	if !det {
		return Fresh("sprintf", SStr)
	}
	return sprintfTerm(format, args)
}

// isPureStd: standard-library functions treated as pure deterministic functions of their value arguments.
func isPureStd(key string) bool {
	for _, p := range []string{"strings.", "strconv.", "unicode.", "unicode/utf8.", "math.", "path/filepath.", "path.", "bytes.", "sort.SearchInts", "html.", "regexp.QuoteMeta"} {
		if strings.HasPrefix(key, p) {
			rest := key[len(p):]
			if strings.Contains(rest, "Builder") || strings.Contains(rest, "Buffer") || strings.HasPrefix(rest, "Append") || strings.Contains(rest, "Reader") || strings.Contains(rest, "Replacer") {
				return false
			}
			return true
		}
	}
	return false
}

func (vc *VC) pureStdCall(s *State, call *ast.CallExpr, key string, sig *types.Signature, recv *Term, args []*Term) []*Term {
	// all arguments must be values (no pointers / maps)
	for i := 0; i < sig.Params().Len(); i++ {
		switch sig.Params().At(i).Type().Underlying().(type) {
		case *types.Pointer, *types.Map, *types.Chan, *types.Signature, *types.Interface:
			return vc.havocCall(s, call, "library call with reference arguments "+key, sig)
		}
	}
	vc.prog.Assumed["library function "+key+": pure deterministic function of its arguments (result otherwise unconstrained)"] = true
	res := make([]*Term, sig.Results().Len())
	for i := range res {
		t := sig.Results().At(i).Type()
		res[i] = vc.loaded(s, t, App(fmt.Sprintf("std.%s.r%d", smtName(key), i), sortOf(t), args...), "res")
	}
	if key == "strings.TrimRight" || key == "strings.TrimSpace" {
		// the result is a prefix of the argument (no longer than it) and, when the set of trimmed bytes is a constant of
		// ASCII bytes, does not end with one of them
		cut := " \t\n\v\f\r"
		known := key == "strings.TrimSpace"
		if key == "strings.TrimRight" && call != nil && len(call.Args) == 2 {
			if tv, ok := vc.frame().info.Types[call.Args[1]]; ok && tv.Value != nil && tv.Value.Kind() == constant.String {
				cut, known = constant.StringVal(tv.Value), true
			}
		}
		r := res[0]
		s.assume(And(Ge(strLen(r), IntLit(0)), Le(strLen(r), strLen(args[0]))))
		if known {
			vc.prog.Assumed["strings.TrimRight / strings.TrimSpace: the result is no longer than the argument and does not end with a byte of the (constant, ASCII) cut set"] = true
			for i := 0; i < len(cut); i++ {
				if cut[i] < 0x80 {
					s.assume(Implies(Gt(strLen(r), IntLit(0)), Not(Eq(strAt(r, Sub(strLen(r), IntLit(1))), IntLit(int64(cut[i]))))))
				}
			}
		}
	}
	if call != nil {
		vc.recordCall(s, exprStr(call.Fun), sig, args, nil)
		vc.recordCall(s, exprStr(call.Fun), sig, nil, res)
	}
	return res
}

// lastSegTerm: the part of s after the last occurrence of sep (s itself when sep does not occur).
func lastSegTerm(str, sep *Term) *Term {
	idx := App("std.strings.LastIndex", SInt, str, sep)
	return Ite(Lt(idx, IntLit(0)), str, strSub(str, Add(idx, strLen(sep)), strLen(str)))
}

// nonNilResult: a library constructor whose results are non-nil; otherwise opaque (no effect on modelled state).
func nonNilResult(n int, doc string) stdModel {
	return func(vc *VC, s *State, call *ast.CallExpr, args []*Term) []*Term {
		vc.prog.Assumed[doc] = true
		out := make([]*Term, n)
		for i := range out {
			out[i] = vc.allocRef(s, "lib", nil)
		}
		return out
	}
}

// opaqueNoEffect: a library call with unconstrained results that does not modify any modelled program state.
func opaqueNoEffect(doc string) stdModel {
	return func(vc *VC, s *State, call *ast.CallExpr, args []*Term) []*Term {
		vc.prog.Assumed[doc] = true
		t := vc.frame().info.TypeOf(call)
		var ts []types.Type
		if tup, ok := t.(*types.Tuple); ok {
			for i := 0; i < tup.Len(); i++ {
				ts = append(ts, tup.At(i).Type())
			}
		} else if t != nil {
			ts = []types.Type{t}
		}
		out := make([]*Term, len(ts))
		for i, rt := range ts {
			out[i] = vc.loadedDeep(s, rt, Fresh("lib.res", sortOf(rt)), "res")
		}
		return out
	}
}

// Big-endian decoders of encoding/binary: exact arithmetic definition; the slice must be long enough (the library panics otherwise).
func init() {
	for _, n := range []int{2, 4, 8} {
		n := n
		name := fmt.Sprintf("encoding/binary.bigEndian.Uint%d", n*8)
		stdModels[name] = func(vc *VC, s *State, call *ast.CallExpr, args []*Term) []*Term {
			vc.prog.Assumed[fmt.Sprintf("binary.BigEndian.Uint%d(b) == sum b[i]*256^(%d-i), panics when len(b) < %d", n*8, n-1, n)] = true
			b := args[0]
			vc.oblige(s, "safety", vc.siteName("call", call), fmt.Sprintf("index out of range in BigEndian.Uint%d", n*8), call.Pos(), Ge(sliceLen(b), IntLit(int64(n))))
			return []*Term{bePack(sliceElems(b), IntLit(0), n)}
		}
	}
}

// Big-endian encoders: the slice must be long enough (the library panics otherwise); the bytes written are not
// modelled (value-semantics slices: a write through a parameter is not visible to the caller).
func init() {
	for _, n := range []int{2, 4, 8} {
		n := n
		name := fmt.Sprintf("encoding/binary.bigEndian.PutUint%d", n*8)
		stdModels[name] = func(vc *VC, s *State, call *ast.CallExpr, args []*Term) []*Term {
			vc.prog.Assumed[fmt.Sprintf("binary.BigEndian.PutUint%d(b, v) panics when len(b) < %d; the bytes it writes are not modelled", n*8, n)] = true
			vc.oblige(s, "safety", vc.siteName("call", call), fmt.Sprintf("index out of range in BigEndian.PutUint%d", n*8), call.Pos(), Ge(sliceLen(args[0]), IntLit(int64(n))))
			return nil
		}
	}
}

// bePack: big-endian value of n bytes of arr starting at off.
func bePack(arr, off *Term, n int) *Term {
	var sum *Term
	for i := 0; i < n; i++ {
		t := Select(arr, Add(off, IntLit(int64(i))))
		if i < n-1 {
			t = op("*", SInt, BigLit(pow2(8*(n-1-i))), t)
		}
		if sum == nil {
			sum = t
		} else {
			sum = Add(sum, t)
		}
	}
	return sum
}

// newCmdModel: exec.Command / exec.CommandContext return a new *Cmd whose Cancel is nil and whose WaitDelay is zero (the
// documented defaults: on expiry of the context the process is killed and Wait does not outlast it on account of the
// process itself).
func newCmdModel(vc *VC, s *State, call *ast.CallExpr, args []*Term) []*Term {
	vc.prog.Assumed["exec.Command/CommandContext return a new non-nil *Cmd with Cancel == nil and WaitDelay == 0 (documented defaults: the process is killed when the context expires)"] = true
	r := vc.allocRef(s, "lib", nil)
	if t := vc.frame().info.TypeOf(call); t != nil {
		if pt, ok := t.Underlying().(*types.Pointer); ok {
			if st, ok := pt.Elem().Underlying().(*types.Struct); ok {
				for i := 0; i < st.NumFields(); i++ {
					f := st.Field(i)
					if f.Name() == "Cancel" || f.Name() == "WaitDelay" {
						name, arr := vc.fieldArr(s, pt.Elem(), f)
						n := Fresh(name, arr.Sort)
						s.assume(Eq(n, Store(arr, r, zeroValue(f.Type()))))
						s.heap[name] = n
					}
				}
			}
		}
	}
	return []*Term{r}
}
