package main

import (
	"crypto/sha256"
	"encoding/json"
	"flag"
	"fmt"
	"os"
	"path/filepath"
	"regexp"
	"sort"
	"strings"
	"time"
)

type PropCfg struct {
	ID        string   `json:"id"`
	Packages  []string `json:"packages"`
	Functions []string `json:"functions"` // short keys (without module prefix)
	Level     string   `json:"level"`
	Undecided []string `json:"undecided_clauses"`
	Bounded   []string `json:"bounded"`
	Extra     []string `json:"extra"` // extra ground/special obligation generators
	Trusted   []string `json:"trusted_base"`
	Explain   string   `json:"explanation"`
}

type KnownFinding struct {
	Property    string   `json:"property"`
	ID          string   `json:"id"`
	Status      string   `json:"status"` // open | fixed
	Obligations []string `json:"obligations"`
	What        string   `json:"what"`
	Witness     string   `json:"witness,omitempty"`
	Commit      string   `json:"commit,omitempty"`
	Also        []string `json:"also,omitempty"` // other properties whose checks verify the same function (same obligation name)
}

func (k KnownFinding) appliesTo(id string) bool {
	if k.Property == id {
		return true
	}
	for _, a := range k.Also {
		if a == id {
			return true
		}
	}
	return false
}

func loadKnownFindings(path string) []KnownFinding {
	data, err := os.ReadFile(path)
	if err != nil {
		return nil
	}
	var out []KnownFinding
	for _, l := range strings.Split(string(data), "\n") {
		l = strings.TrimSpace(l)
		if l == "" || strings.HasPrefix(l, "#") {
			continue
		}
		var k KnownFinding
		if err := json.Unmarshal([]byte(l), &k); err == nil {
			out = append(out, k)
		}
	}
	return out
}

func fullKey(short string) string {
	if strings.HasPrefix(short, modulePath) || !strings.Contains(short, ".") {
		return short
	}
	// main package: "main.main" stays; others get the module prefix
	if strings.HasPrefix(short, "main.") {
		return modulePath + "." + strings.TrimPrefix(short, "main.")
	}
	return modulePath + "/" + short
}

type runResult struct {
	obls   []*Obligation
	errs   []string
	funcs  []string
	hashes map[string]string
}

func verifyFunctions(prog *Program, keys []string, noKF bool) *runResult {
	rr := &runResult{hashes: map[string]string{}}
	for _, k := range keys {
		fi := prog.Funcs[fullKey(k)]
		if fi == nil {
			rr.errs = append(rr.errs, "function under contract not found in /repo: "+k)
			continue
		}
		if fi.Spec != nil && fi.Spec.Trusted {
			rr.errs = append(rr.errs, "function listed for verification is marked trusted: "+k)
			continue
		}
		vc := newVC(prog, fi)
		vc.noKF = noKF
		obls, err := vc.verify()
		if err != nil {
			rr.errs = append(rr.errs, err.Error())
			continue
		}
		if fi.Decl != nil {
			start := prog.Fset.Position(fi.Decl.Pos())
			end := prog.Fset.Position(fi.Decl.End())
			if data, err := os.ReadFile(start.Filename); err == nil && end.Offset <= len(data) {
				rr.hashes[k] = fmt.Sprintf("%x", sha256.Sum256(data[start.Offset:end.Offset]))[:16]
			}
		}
		rr.funcs = append(rr.funcs, k)
		rr.obls = append(rr.obls, obls...)
	}
	return rr
}

func programAxioms(prog *Program) []*Term {
	var out []*Term
	for _, ax := range prog.Axioms {
		pkg := prog.Pkgs[prog.AxPkg[ax.Name]]
		vc := &VC{prog: prog, heap0: map[string]*Term{}, heapSorts: map[string]*Sort{}, runTag: "ax", boxed: nil}
		env := &SpecEnv{vc: vc, st: &State{heap: map[string]*Term{}, ghost: map[string]*Term{}, epoch: "0", alloc: IntLit(1)}, vars: map[string]TV{}, pkg: pkg, what: "axiom " + ax.Name}
		func() {
			defer func() {
				if r := recover(); r != nil {
					fmt.Fprintf(os.Stderr, "axiom %s: %v\n", ax.Name, r)
					os.Exit(3)
				}
			}()
			out = append(out, env.evalBool(ax.Expr))
		}()
		prog.Assumed["axiom "+ax.Name+": "+ax.Expr.Src] = true
	}
	return out
}

func main() {
	if len(os.Args) < 2 {
		fmt.Fprintln(os.Stderr, "usage: govc check|dev ...")
		os.Exit(2)
	}
	switch os.Args[1] {
	case "check":
		os.Exit(cmdCheck(os.Args[2:]))
	case "dev":
		os.Exit(cmdDev(os.Args[2:]))
	case "replay":
		os.Exit(cmdReplay(os.Args[2:]))
	case "sweep":
		os.Exit(cmdSweep(os.Args[2:]))
	case "pegdfa":
		if os.Args[2] == "stats" {
			pegStats()
		} else {
			pegDebug(os.Args[2])
		}
	case "maploops":
		prog, err := loadProgram("/repo", []string{"./..."})
		if err != nil {
			fmt.Fprintln(os.Stderr, err)
			os.Exit(2)
		}
		for _, l := range prog.mapLoops() {
			fmt.Printf("%-70s #%d %-8s %s\n", l.Func, l.Ord, l.Kind, l.Pos)
		}
	default:
		fmt.Fprintln(os.Stderr, "unknown command")
		os.Exit(2)
	}
}

// cmdDev: verify named functions and print per-obligation results (development aid).
func cmdDev(args []string) int {
	fs := flag.NewFlagSet("dev", flag.ExitOnError)
	repo := fs.String("repo", "/repo", "")
	pkgs := fs.String("pkgs", "", "comma separated package patterns")
	funcs := fs.String("funcs", "", "comma separated short function keys")
	timeout := fs.Int("timeout", 10, "")
	keep := fs.String("keep", "", "directory to keep SMT files")
	noKF := fs.Bool("nokf", false, "")
	filter := fs.String("only", "", "regexp: only solve obligations whose name matches")
	fs.Parse(args)
	prog, err := loadProgram(*repo, strings.Split(*pkgs, ","))
	if err != nil {
		fmt.Fprintln(os.Stderr, "load:", err)
		return 2
	}
	if err := prog.loadExtraContracts("/verif/stdlib"); err != nil {
		fmt.Fprintln(os.Stderr, err)
		return 2
	}
	keys := strings.Split(*funcs, ",")
	if *funcs == "" {
		keys = nil
		for k, sp := range prog.Specs {
			if !sp.Trusted && prog.Funcs[k] != nil {
				keys = append(keys, shortKey(k))
			}
		}
		sort.Strings(keys)
	}
	rr := verifyFunctions(prog, keys, *noKF)
	for _, e := range rr.errs {
		fmt.Println("ERROR:", e)
	}
	dir := *keep
	if dir == "" {
		dir, _ = os.MkdirTemp("", "govc")
		defer os.RemoveAll(dir)
	}
	obls := rr.obls
	if *filter != "" {
		re := regexp.MustCompile(*filter)
		var sel []*Obligation
		for _, o := range obls {
			if re.MatchString(o.Name) {
				sel = append(sel, o)
			}
		}
		obls = sel
	}
	axioms := programAxioms(prog)
	t0 := time.Now()
	prog.discharge(obls, axioms, solveOpts{timeout: time.Duration(*timeout) * time.Second, dir: dir, jobs: solverJobs()})
	bad := 0
	for i, o := range obls {
		ok := oblOK(o)
		mark := "ok  "
		if !ok {
			mark = "FAIL"
			bad++
		}
		fmt.Printf("%s %-8s %5.2fs %-70s %s  [%s] %s\n", mark, o.Status, o.Seconds, o.Name, o.Pos, fmt.Sprintf("o%05d", i), trunc(o.Desc, 90))
	}
	fmt.Printf("%d obligations, %d failed, %d errors, %.1fs\n", len(obls), bad, len(rr.errs), time.Since(t0).Seconds())
	for _, k := range sortedKeys(prog.Uncontracted) {
		fmt.Println("uncontracted:", k)
	}
	if bad > 0 || len(rr.errs) > 0 {
		return 1
	}
	return 0
}

func trunc(s string, n int) string {
	if len(s) > n {
		return s[:n] + "..."
	}
	return s
}

func cmdCheck(args []string) int {
	fs := flag.NewFlagSet("check", flag.ExitOnError)
	repo := fs.String("repo", "/repo", "")
	verif := fs.String("verif", "/verif", "")
	prop := fs.String("prop", "", "property id")
	tier := fs.String("tier", "quick", "")
	updateExpect := fs.Bool("update-expect", false, "rewrite /verif/expect/<id>.json from this run")
	fs.Parse(args)
	t0 := time.Now()
	cfgData, err := os.ReadFile(filepath.Join(*verif, "props", *prop+".json"))
	if err != nil {
		fmt.Fprintln(os.Stderr, err)
		return 2
	}
	var cfg PropCfg
	if err := json.Unmarshal(cfgData, &cfg); err != nil {
		fmt.Fprintln(os.Stderr, "props:", err)
		return 2
	}
	seed := 0
	fmt.Sscan(os.Getenv("VERIF_SEED"), &seed)
	timeout := 20 * time.Second
	if *tier == "thorough" {
		timeout = 90 * time.Second
	}
	replayDir := filepath.Join(*verif, "replay", cfg.ID)
	os.RemoveAll(replayDir)
	os.MkdirAll(replayDir, 0o755)
	var violations []string
	report := func(name string, payload map[string]interface{}, noInput bool) {
		fn := filepath.Join(replayDir, sanitize(name)+".json")
		payload["obligation"] = name
		payload["property"] = cfg.ID
		data, _ := json.MarshalIndent(payload, "", " ")
		os.WriteFile(fn, data, 0o644)
		line := fmt.Sprintf("VIOLATION property=%s replay=%s", cfg.ID, fn)
		if noInput {
			line += " no-failing-input-found"
		}
		violations = append(violations, line)
	}

	prog, err := loadProgram(*repo, cfg.Packages)
	if err != nil {
		report("load", map[string]interface{}{"error": err.Error(), "undecided": "the packages could not be loaded/type-checked with -tags verif"}, true)
		return finish(cfg, *verif, *tier, seed, t0, nil, nil, violations, nil, prog, nil)
	}
	if err := prog.loadExtraContracts(filepath.Join(*verif, "stdlib")); err != nil {
		fmt.Fprintln(os.Stderr, err)
		return 2
	}
	axioms := programAxioms(prog)
	rr := verifyFunctions(prog, cfg.Functions, false)
	extra, extraErrs := runExtras(prog, &cfg, *repo, *verif)
	rr.obls = append(rr.obls, extra...)
	rr.errs = append(rr.errs, extraErrs...)
	tmp, _ := os.MkdirTemp("", "govc")
	defer os.RemoveAll(tmp)
	kfs := loadKnownFindings(filepath.Join(*verif, "known_findings.jsonl"))
	for _, k := range kfs {
		if k.appliesTo(cfg.ID) && k.Status == "open" {
			for _, name := range k.Obligations {
				for _, o := range rr.obls {
					if o.Name == name {
						o.NoRetry = true // expected to fail: no second chance with a longer budget
					}
				}
			}
		}
	}
	prog.discharge(rr.obls, axioms, solveOpts{timeout: timeout, dir: tmp, jobs: solverJobs()})

	// known findings: re-verify functions that carry assume-known-finding without the restriction
	var kfLines []string
	openKF := map[string]KnownFinding{} // obligation name -> finding
	for _, k := range kfs {
		if k.appliesTo(cfg.ID) && k.Status == "open" {
			for _, o := range k.Obligations {
				openKF[o] = k
			}
		}
	}
	var kfFuncs []string
	for _, k := range cfg.Functions {
		if fi := prog.Funcs[fullKey(k)]; fi != nil && fi.Spec != nil && (len(fi.Spec.KFs) > 0 || len(fi.Spec.SiteKFs) > 0) {
			kfFuncs = append(kfFuncs, k)
		}
	}
	var kfObls []*Obligation
	if len(kfFuncs) > 0 {
		rr2 := verifyFunctions(prog, kfFuncs, true)
		prog.discharge(rr2.obls, axioms, solveOpts{timeout: timeout, dir: filepath.Join(tmp, "kf"), jobs: solverJobs()})
		kfObls = rr2.obls
		reported := map[string]bool{}
		for _, o := range rr2.obls {
			if oblOK(o) {
				continue
			}
			if k, ok := openKF[o.Name]; ok {
				if !reported[k.ID] {
					kfLines = append(kfLines, fmt.Sprintf("KNOWN-FINDING: property=%s %s [%s] %s", cfg.ID, k.ID, o.Name, k.What))
					reported[k.ID] = true
				}
				continue
			}
			// fails without the restriction and is not listed: a different violation
			rr.obls = append(rr.obls, o)
		}
		for _, k := range kfs {
			if k.Property == cfg.ID && k.Status == "open" && !reported[k.ID] {
				kfLines = append(kfLines, fmt.Sprintf("NOTE: known finding %s no longer reproduces as a failed obligation", k.ID))
			}
		}
	}

	// expected obligations
	expPath := filepath.Join(*verif, "expect", cfg.ID+".json")
	names := map[string]int{}
	for _, o := range rr.obls {
		names[o.Name]++
	}
	if *updateExpect {
		var ns []string
		for n := range names {
			ns = append(ns, n)
		}
		sort.Strings(ns)
		data, _ := json.MarshalIndent(map[string]interface{}{"property": cfg.ID, "obligations": ns}, "", " ")
		os.MkdirAll(filepath.Dir(expPath), 0o755)
		os.WriteFile(expPath, data, 0o644)
	} else if data, err := os.ReadFile(expPath); err == nil {
		var exp struct {
			Obligations []string `json:"obligations"`
		}
		json.Unmarshal(data, &exp)
		contractKinds := regexp.MustCompile(`#(ensures|invariant-init|invariant-step|decreases|frame|ground|commute|lemma)`)
		for _, n := range exp.Obligations {
			if names[n] == 0 && contractKinds.MatchString(n) && !strings.Contains(n, "#frame") {
				rr.errs = append(rr.errs, "expected obligation was not generated (vacuity guard): "+n)
			}
		}
	} else {
		rr.errs = append(rr.errs, "missing expectation file "+expPath)
	}
	if len(rr.obls) == 0 {
		rr.errs = append(rr.errs, "no obligations generated")
	}

	// group failures by obligation name
	failed := map[string][]*Obligation{}
	kfSeen := map[string]bool{}
	for _, o := range rr.obls {
		if !oblOK(o) {
			if k, ok := openKF[o.Name]; ok {
				// a recorded, still open finding: reported as such, never as a violation
				if !kfSeen[k.ID] {
					kfSeen[k.ID] = true
					kfLines = append(kfLines, fmt.Sprintf("KNOWN-FINDING: property=%s %s [%s] %s", cfg.ID, k.ID, o.Name, k.What))
				}
				o.Status = "known-finding"
				continue
			}
			failed[o.Name] = append(failed[o.Name], o)
		}
	}
	var fnames []string
	for n := range failed {
		fnames = append(fnames, n)
	}
	sort.Strings(fnames)
	for _, n := range fnames {
		os0 := failed[n][0]
		payload := map[string]interface{}{
			"kind": os0.Kind, "function": os0.Func, "clause": os0.Desc, "position": os0.Pos,
			"solver_status": os0.Status, "solver_output": os0.Output, "paths_failed": len(failed[n]),
		}
		noInput := true
		if !os0.Cover {
			if os0.Status == "sat" {
				payload["solver_model"] = prog.getModel(os0, axioms, tmp, timeout)
			}
			var rp *replayResult
			for _, cand := range failed[n] {
				rp = prog.tryReplay(cand, axioms, *repo)
				if rp.Reproduced {
					break
				}
			}
			payload["replay_result"] = rp
			if rp != nil && rp.Reproduced {
				noInput = false
				payload["note"] = "the solver model was concretised into the Go test in replay_result.test_source, injected into the package with go test -overlay, and it fails on the real code (output in replay_result.output)"
			} else {
				payload["note"] = "solver answer " + os0.Status + "; no failing input was confirmed on the real code: " + rp.Reason
			}
		} else {
			payload["note"] = "no solver produced a model (" + os0.Status + "); the obligation was discharged on the unchanged tree and is not discharged on this tree"
		}
		smtFile := filepath.Join(replayDir, sanitize(n)+".smt2")
		os.WriteFile(smtFile, []byte(os0.SMT), 0o644)
		payload["smt_file"] = smtFile
		payload["replay"] = "z3-new -smt2 " + smtFile + "   # expected " + map[bool]string{true: "sat", false: "unsat"}[os0.Cover] + " on a tree where the property holds"
		report(n, payload, noInput)
	}
	for i, e := range rr.errs {
		report(fmt.Sprintf("engine-%d", i+1), map[string]interface{}{"undecided": e, "note": "the verifier could not generate or check the obligations for this tree; the property is not established"}, true)
	}
	for _, l := range kfLines {
		fmt.Println(l)
	}
	return finish(cfg, *verif, *tier, seed, t0, rr, kfObls, violations, kfLines, prog, axioms)
}

func oblOK(o *Obligation) bool {
	if o.Status == "known-finding" {
		return false
	}
	if o.Cover {
		return o.Status == "sat" || o.Status == "not-refuted"
	}
	return o.Status == "unsat"
}

func sanitize(s string) string {
	return regexp.MustCompile(`[^A-Za-z0-9_.#:-]`).ReplaceAllString(s, "_")
}

func finish(cfg PropCfg, verif, tier string, seed int, t0 time.Time, rr *runResult, kfObls []*Obligation, violations, kfLines []string, prog *Program, axioms []*Term) int {
	level := cfg.Level
	if level == "" {
		level = "proof"
	}
	cov := map[string]interface{}{}
	nObl, nDis := 0, 0
	byKind := map[string]int{}
	byBackend := map[string]int{}
	solverSecs := 0.0
	var slow []string
	var samples []interface{}
	covers := 0
	if rr != nil {
		for _, o := range rr.obls {
			if o.Status == "known-finding" {
				continue // recorded open finding: listed under known_findings, not counted as an obligation of the claim
			}
			nObl++
			if oblOK(o) {
				nDis++
			}
			byKind[o.Kind]++
			if o.Solver != "" {
				byBackend[o.Solver]++
			}
			solverSecs += o.Seconds
			if o.Seconds > 5 {
				slow = append(slow, o.Name)
			}
			if o.Cover {
				covers++
			}
		}
		// samples: a few obligations written out
		step := len(rr.obls)/4 + 1
		for i := 0; i < len(rr.obls); i += step {
			o := rr.obls[i]
			smt := o.SMT
			if len(smt) > 3000 {
				smt = smt[:1500] + "\n...\n" + smt[len(smt)-1400:]
			}
			samples = append(samples, map[string]interface{}{"obligation": o.Name, "kind": o.Kind, "clause": o.Desc, "position": o.Pos, "status": o.Status, "solver": o.Solver, "smt_excerpt": smt})
		}
	}
	cov["obligations"] = nObl
	cov["discharged"] = nDis
	cov["checker_cmd"] = fmt.Sprintf("/verif/bin/govc check -prop %s -tier %s  (z3-new 5.1.0 | z3 4.8.12 | cvc5 1.0.3 per obligation, SMT-LIB2 files generated from /repo's working tree)", cfg.ID, tier)
	trusted := append([]string{}, cfg.Trusted...)
	trusted = append(trusted, "govc VC generator (symbolic execution over go/ast+go/types, heap/slice/string encodings, merge and loop-cut rules)", "SMT solvers z3-new 5.1.0, z3 4.8.12, cvc5 1.0.3", "Go semantics as modelled: mathematical integers (no overflow obligations), slices with value semantics (no aliasing between slice headers), sequential execution")
	cov["trusted_base"] = trusted
	cov["obligations_by_kind"] = byKind
	cov["by_backend"] = byBackend
	cov["solver_seconds"] = solverSecs
	cov["slow_obligations"] = slow
	cov["vacuity_covers"] = covers
	cov["samples"] = samples
	if cfg.Explain != "" {
		cov["explanation"] = cfg.Explain
	}
	var assumptions []string
	if rr != nil {
		fl := []map[string]string{}
		for _, f := range rr.funcs {
			fl = append(fl, map[string]string{"function": f, "source_sha256_16": rr.hashes[f]})
		}
		cov["functions_under_contract"] = fl
	}
	if prog != nil {
		cov["assumed_contracts"] = sortedKeys(prog.Assumed)
		cov["uncontracted_calls"] = sortedKeys(prog.Uncontracted)
		cov["inlined_functions"] = sortedKeys(prog.Inlined)
		cov["abstracted"] = sortedKeys(prog.Abstracted)
		if prog.Inventory != nil {
			cov["map_iterations"] = prog.Inventory
		}
		if prog.peg != nil {
			cov["peg_shape_theory"] = prog.peg.Summary
		}
		for _, a := range sortedKeys(prog.Assumed) {
			assumptions = append(assumptions, "assumed: "+a)
		}
		for _, a := range sortedKeys(prog.Abstracted) {
			assumptions = append(assumptions, "abstracted: "+a)
		}
		for _, a := range sortedKeys(prog.Uncontracted) {
			assumptions = append(assumptions, "havocked: "+a)
		}
	}
	cov["undecided_clauses"] = cfg.Undecided
	cov["bounded"] = cfg.Bounded
	cov["known_findings"] = kfLines
	for _, u := range cfg.Undecided {
		assumptions = append(assumptions, "undecided clause (not claimed): "+u)
	}
	assumptions = append(assumptions, "machine arithmetic treated as mathematical integers outside bit-vector mode")
	ev := map[string]interface{}{
		"property_id": cfg.ID, "tier": tier, "seed": seed, "level": level, "coverage": cov,
		"assumptions": assumptions, "wall_s": time.Since(t0).Seconds(), "violations": len(violations),
	}
	data, _ := json.MarshalIndent(ev, "", " ")
	os.MkdirAll(filepath.Join(verif, "evidence"), 0o755)
	os.WriteFile(filepath.Join(verif, "evidence", cfg.ID+".json"), data, 0o644)
	for _, v := range violations {
		fmt.Println(v)
	}
	fmt.Printf("%s: %d obligations, %d discharged, %d violations, %.1fs\n", cfg.ID, nObl, nDis, len(violations), time.Since(t0).Seconds())
	if len(violations) > 0 {
		return 1
	}
	return 0
}

// cmdReplay re-runs the stored counterexample test of a replay file against the current tree.
func cmdReplay(args []string) int {
	fs := flag.NewFlagSet("replay", flag.ExitOnError)
	repo := fs.String("repo", "/repo", "")
	_ = fs.String("prop", "", "")
	file := fs.String("file", "", "")
	fs.Parse(args)
	data, err := os.ReadFile(*file)
	if err != nil {
		fmt.Fprintln(os.Stderr, err)
		return 2
	}
	var payload struct {
		Obligation string        `json:"obligation"`
		Property   string        `json:"property"`
		SMTFile    string        `json:"smt_file"`
		Replay     *replayResult `json:"replay_result"`
	}
	if err := json.Unmarshal(data, &payload); err != nil {
		fmt.Fprintln(os.Stderr, err)
		return 2
	}
	if payload.Replay == nil || payload.Replay.TestSource == "" {
		fmt.Printf("obligation %s: no executable counterexample is stored (no-failing-input-found); the SMT query is %s\n", payload.Obligation, payload.SMTFile)
		return 0
	}
	out, failed := runReplayTest(*repo, payload.Replay.TestPkgDir, payload.Replay.TestSource, payload.Replay.TestName)
	fmt.Print(out)
	if failed {
		fmt.Printf("VIOLATION property=%s replay=%s\n", payload.Property, *file)
		return 1
	}
	fmt.Println("the stored counterexample no longer fails on this tree")
	return 0
}
