package main

import (
	"fmt"
	"os"
	"sort"
)

func pegDebug(rule string) {
	src, _ := os.ReadFile("/repo/parser/thrift.peg")
	g, err := parsePEG(string(src))
	if err != nil {
		fmt.Println(err)
		return
	}
	minLen := g.minLens()
	var caps []*pegExpr
	l := g.childLang(g.Rules[rule], minLen, &caps)
	d := toDFA(l)
	fmt.Println("rule", rule, "states", d.States, "init", d.Init, "acc", d.Acc)
	for st := 0; st < d.States; st++ {
		var syms []string
		for s := range d.Trans[st] {
			syms = append(syms, s)
		}
		sort.Strings(syms)
		for _, s := range syms {
			fmt.Printf("  %d -%s-> %d\n", st, s, d.Trans[st][s])
		}
	}
}

func pegStats() {
	prog, err := loadProgram("/repo", []string{"./parser"})
	if err != nil {
		fmt.Println(err)
		return
	}
	th, err := buildPegTheory(prog, "/repo")
	if err != nil {
		fmt.Println(err)
		return
	}
	fmt.Println(th.Summary, "defs bytes", len(th.Defs))
}
