package main

// Verification of one function against its contract.

import (
	"fmt"
	"go/ast"
	"go/token"
	"go/types"
	"strings"
)

var runCounter int

func newVC(prog *Program, fi *FuncInfo) *VC {
	runCounter++
	return &VC{prog: prog, fn: fi, heap0: map[string]*Term{}, heapSorts: map[string]*Sort{}, runTag: fmt.Sprintf("r%d", runCounter),
		boxed: map[types.Object]bool{}, siteOrd: map[ast.Node]string{}, siteOrd2: map[ast.Node]string{}, loopPath: map[ast.Stmt]string{}, closures: map[types.Object]*ast.FuncLit{}, analyzed: map[ast.Node]bool{}, ghostTypes: map[string]types.Type{}, usedSites: map[string]bool{}, paramVals: map[*types.Var]*Term{}, gaddrSeen: map[string]bool{}, heapGoTypes: map[string]types.Type{}, mapValArr: map[string]bool{}, epochAlloc: map[string]*Term{}}
}

// analyzeBody computes boxed variables and site numbering for a function body.
func (vc *VC) analyzeBody(body *ast.BlockStmt, info *types.Info, decl *ast.FuncDecl) {
	if vc.analyzed[body] {
		return
	}
	vc.analyzed[body] = true
	prefix := ""
	if decl != nil && vc.fn != nil && decl != vc.fn.Decl {
		prefix = ""
	}
	vc.numberSites(body, prefix)
	ast.Inspect(body, func(n ast.Node) bool {
		switch x := n.(type) {
		case *ast.UnaryExpr:
			if x.Op == token.AND {
				if id, ok := ast.Unparen(x.X).(*ast.Ident); ok {
					if o, ok := info.ObjectOf(id).(*types.Var); ok && o.Pkg() != nil && o.Parent() != o.Pkg().Scope() {
						vc.boxed[o] = true
					}
				}
			}
		case *ast.CallExpr:
			if se, ok := ast.Unparen(x.Fun).(*ast.SelectorExpr); ok {
				if sel, ok := info.Selections[se]; ok && sel.Kind() == types.MethodVal {
					m := sel.Obj().(*types.Func)
					sig := m.Type().(*types.Signature)
					if sig.Recv() != nil {
						_, wantPtr := sig.Recv().Type().Underlying().(*types.Pointer)
						if id, ok := ast.Unparen(se.X).(*ast.Ident); ok && wantPtr && len(sel.Index()) == 1 {
							if o, ok := info.ObjectOf(id).(*types.Var); ok {
								if _, isPtr := o.Type().Underlying().(*types.Pointer); !isPtr {
									if _, isI := o.Type().Underlying().(*types.Interface); !isI && o.Pkg() != nil && o.Parent() != o.Pkg().Scope() {
										vc.boxed[o] = true
									}
								}
							}
						}
					}
				}
			}
		}
		return true
	})
}

func (vc *VC) verify() (obls []*Obligation, err error) {
	fi := vc.fn
	defer func() {
		if r := recover(); r != nil {
			switch e := r.(type) {
			case unsupportedErr:
				err = fmt.Errorf("%s: %s", shortKey(fi.Key), string(e))
			case specFail:
				err = fmt.Errorf("%s: %s", shortKey(fi.Key), string(e))
			default:
				panic(r)
			}
		}
	}()
	if fi.Decl == nil || fi.Decl.Body == nil {
		return nil, fmt.Errorf("%s: no body", fi.Key)
	}
	spec := fi.Spec
	if spec == nil {
		spec = &FuncSpec{Key: fi.Key, Loops: map[string]*LoopSpec{}}
		fi.Spec = spec
	}
	info := fi.Pkg.TypesInfo
	sig := fi.Obj.Type().(*types.Signature)
	vc.numberLoops(fi.Decl.Body, vc.loopPath)
	vc.analyzeBody(fi.Decl.Body, info, fi.Decl)

	s := &State{env: map[types.Object]*Term{}, ghost: map[string]*Term{}, heap: map[string]*Term{}, epoch: "0"}
	s.alloc = Const("alloc0."+vc.runTag, SInt)
	s.assume(Gt(s.alloc, IntLit(0)))
	vc.epochAlloc["0"] = s.alloc
	fr := &Frame{fn: fi, sig: sig, info: info, pkg: fi.Pkg}
	vc.frames = []*Frame{fr}
	paramVals := map[types.Object]*Term{}
	bind := func(nm *ast.Ident) {
		if nm.Name == "_" {
			return
		}
		o, ok := info.Defs[nm].(*types.Var)
		if !ok {
			return
		}
		v := vc.loadedDeep(s, o.Type(), Const(smtName(o.Name())+"0."+vc.runTag, sortOf(o.Type())), o.Name())
		paramVals[o] = v
		vc.paramVals[o] = v
		vc.bindParam(s, o, v)
	}
	if fi.Decl.Recv != nil {
		for _, f := range fi.Decl.Recv.List {
			for _, nm := range f.Names {
				bind(nm)
			}
		}
	}
	for _, f := range fi.Decl.Type.Params.List {
		for _, nm := range f.Names {
			bind(nm)
		}
	}
	// preconditions
	env := &SpecEnv{vc: vc, st: s, vars: map[string]TV{}, objVals: paramVals, pkg: fi.Pkg, scope: info.Scopes[fi.Decl.Type], pos: fi.Decl.Body.Lbrace, what: "contract of " + shortKey(fi.Key)}
	for _, r := range spec.Requires {
		s.assume(env.evalBool(r))
	}
	for _, kf := range spec.KFs {
		if !vc.noKF {
			s.assume(env.evalBool(kf.Expr))
		}
	}
	if !spec.DeferredHandler && specMentions(spec, "$exited") {
		s.ghost["$exited"] = False
		s.ghost["$exitcode"] = IntLit(0)
		vc.ghostTypes["$exited"] = types.Typ[types.Bool]
		vc.ghostTypes["$exitcode"] = types.Typ[types.Int]
	}
	if spec.DeferredHandler {
		s.ghost["$recovered"] = False
		s.ghost["$exited"] = False
		s.ghost["$exitcode"] = IntLit(0)
		vc.ghostTypes["$recovered"] = types.Typ[types.Bool]
		vc.ghostTypes["$exited"] = types.Typ[types.Bool]
		vc.ghostTypes["$exitcode"] = types.Typ[types.Int]
	}
	if specModifiesStream(spec) {
		vc.streamPos(s) // the ghost stream length is a natural number
	}
	vc.initCallRecords(s, fi.Decl.Body, fi.Pkg.TypesInfo)
	if spec.Propagates {
		s.ghost["$failed"] = False
		vc.ghostTypes["$failed"] = types.Typ[types.Bool]
	}
	if len(spec.WorkerEnsures) > 0 || spec.ChanNonNil {
		s.ghost["$spawned"] = IntLit(0)
		s.ghost["$quiet"] = False
		s.ghost["$defaultTaken"] = False
		s.ghost["$fcalls"] = IntLit(0)
		vc.ghostTypes["$spawned"] = types.Typ[types.Int]
		vc.ghostTypes["$fcalls"] = types.Typ[types.Int]
		vc.ghostTypes["$quiet"] = types.Typ[types.Bool]
		vc.ghostTypes["$defaultTaken"] = types.Typ[types.Bool]
	}
	vc.cover(s, "requires", "precondition satisfiable", fi.Decl.Pos())
	vc.entry = s.clone()
	vc.modAll = spec.ModAll
	if !spec.ModAll {
		pre := *env
		pre.st = vc.entry
		vc.topMods = vc.modSetOf(spec, &pre)
	}
	fr.results = vc.bindResults(s, fi.Decl.Type.Results, info)

	vc.frames = nil
	res := vc.runFrame(s, fr, fi.Decl.Body, sig)
	vc.frames = []*Frame{fr}
	// escaping panics
	for _, p := range vc.topPanics {
		if !spec.MayPanic {
			vc.oblige(p, "safety", "panic-escapes", "explicit panic escapes the function", fi.Decl.Pos(), False)
		}
	}
	for key := range spec.Asserts {
		if !vc.usedSites[key] {
			return nil, fmt.Errorf("%s: site clause %q matches no statement", shortKey(fi.Key), key)
		}
	}
	for key := range spec.SiteKFs {
		if !vc.usedSites[key] {
			return nil, fmt.Errorf("%s: site clause %q matches no statement", shortKey(fi.Key), key)
		}
	}
	defer func() {
		for _, o := range vc.obls {
			o.Assume = append(append([]*Term{}, vc.bgFacts...), o.Assume...)
		}
	}()
	if s.dead {
		return vc.obls, nil
	}
	// postconditions
	post := &SpecEnv{vc: vc, st: s, old: vc.entry, vars: map[string]TV{}, objVals: map[types.Object]*Term{}, pkg: fi.Pkg, scope: info.Scopes[fi.Decl.Type], pos: fi.Decl.Body.Lbrace, what: "postcondition of " + shortKey(fi.Key)}
	for o, v := range paramVals {
		post.objVals[o] = v
	}
	for i := 0; i < sig.Results().Len(); i++ {
		rv := sig.Results().At(i)
		post.objVals[rv] = res[i]
		if rv.Name() != "" && rv.Name() != "_" {
			post.vars[rv.Name()] = TV{res[i], rv.Type()}
		}
		post.vars[fmt.Sprintf("result%d", i)] = TV{res[i], rv.Type()}
		if i == 0 {
			post.vars["result"] = TV{res[i], rv.Type()}
		}
	}
	for k, t := range s.ghost {
		post.vars[k] = TV{t, vc.ghostTypes[k]}
	}
	for i, e := range spec.Ensures {
		vc.curClause = e
		vc.obligeKeep(s, "ensures", fmt.Sprintf("%d", i+1), "postcondition: "+e.Src, fi.Decl.Pos(), post.evalBool(e))
		vc.curClause = nil
	}
	return vc.obls, nil
}

// obligeKeep records an obligation without assuming it afterwards (postconditions are independent).
func (vc *VC) obligeKeep(s *State, kind, site, desc string, pos token.Pos, goal *Term) {
	pc := s.pc
	vc.oblige(s, kind, site, desc, pos, goal)
	s.pc = pc
}

// specMentions: some postcondition of the contract mentions the given ghost name.
func specMentions(spec *FuncSpec, name string) bool {
	for _, e := range spec.Ensures {
		if strings.Contains(e.Src, name) {
			return true
		}
	}
	return false
}
