package main

// C07 (deterministic output): every iteration over a Go map that is reachable (static call graph, CHA) from the
// compiler entry points must be shown order-insensitive. Per loop, in this order:
//   commute       relational verification condition: from an arbitrary state, executing the real loop body for two
//                 distinct keys in both orders yields equal states (variables and heap), and the body has no exit;
//   sorted-after  the body only appends the key/value to a slice that is sorted (sort.Strings / sort.Ints /
//                 sort.Slice with a comparator over the appended key) before anything else uses it;
//   listed        /verif/expect/C07-loops.json names the loop with a class (assumed / exempt / known-finding) and a
//                 written reason; reported in the evidence as not proved.
// A reachable map iteration in none of these classes is a violation, so a newly introduced one is caught.

import (
	"encoding/json"
	"fmt"
	"go/ast"
	"go/token"
	"go/types"
	"os"
	"path/filepath"
	"regexp"
	"sort"
	"strings"

	"golang.org/x/tools/go/callgraph"
	"golang.org/x/tools/go/callgraph/cha"
	"golang.org/x/tools/go/packages"
	"golang.org/x/tools/go/ssa"
	"golang.org/x/tools/go/ssa/ssautil"
)

func init() { extraGens["maporder"] = genMapOrder }

func isIdentText(s string) bool {
	for _, c := range s {
		if !(c == '_' || (c >= 'a' && c <= 'z') || (c >= 'A' && c <= 'Z') || (c >= '0' && c <= '9')) {
			return false
		}
	}
	return s != ""
}

type loopClass struct {
	Class  string `json:"class"`
	Reason string `json:"reason"`
}

var c07Roots = []string{
	modulePath + "/sdk.InvokeThriftgo",
	modulePath + "/plugin.MarshalRequest",
	modulePath + "/tool/trimmer.main",
	modulePath + ".main",
}

// reachableFuncs: names (funcKey form) of functions reachable from the roots in the CHA call graph.
func reachableFuncs(prog *Program) (map[string]bool, error) {
	var pkgs []*packages.Package
	for _, p := range prog.Pkgs {
		pkgs = append(pkgs, p)
	}
	sort.Slice(pkgs, func(i, j int) bool { return pkgs[i].PkgPath < pkgs[j].PkgPath })
	sp, _ := ssautil.AllPackages(pkgs, ssa.InstantiateGenerics)
	sp.Build()
	cg := cha.CallGraph(sp)
	reach := map[*ssa.Function]bool{}
	var stack []*callgraph.Node
	for fn, node := range cg.Nodes {
		if fn == nil || fn.Pkg == nil {
			continue
		}
		full := fn.Pkg.Pkg.Path() + "." + fn.Name()
		for _, r := range c07Roots {
			if full == r {
				stack = append(stack, node)
				reach[fn] = true
			}
		}
	}
	if len(stack) == 0 {
		return nil, fmt.Errorf("no call-graph root found")
	}
	for len(stack) > 0 {
		n := stack[len(stack)-1]
		stack = stack[:len(stack)-1]
		for _, e := range n.Out {
			if !reach[e.Callee.Func] {
				reach[e.Callee.Func] = true
				stack = append(stack, e.Callee)
			}
		}
	}
	out := map[string]bool{}
	for fn := range reach {
		// anonymous functions count for their enclosing declared function
		f := fn
		for f.Parent() != nil {
			f = f.Parent()
		}
		if obj, ok := f.Object().(*types.Func); ok {
			out[funcKey(obj)] = true
		}
	}
	return out, nil
}

func genMapOrder(prog *Program, cfg *PropCfg, repo, verif string) ([]*Obligation, []string) {
	var errs []string
	// Reachability: every function of every module package loaded for the compiler roots (import closure). The CHA
	// call graph is NOT used to prune: template functions and methods are invoked through reflection by text/template,
	// which no static call graph sees.
	reach := map[string]bool{}
	for k, fi := range prog.Funcs {
		if strings.HasPrefix(fi.Pkg.PkgPath, modulePath) {
			reach[k] = true
		}
	}
	listed := map[string]loopClass{}
	if data, err := os.ReadFile(filepath.Join(verif, "expect", "C07-loops.json")); err == nil {
		json.Unmarshal(data, &listed)
	}
	var obls []*Obligation
	var inventory []map[string]string
	used := map[string]bool{}
	for _, l := range prog.mapLoops() {
		name := fmt.Sprintf("%s#maploop:%d", l.Func, l.Ord)
		rec := map[string]string{"loop": name, "position": l.Pos}
		if !reach[fullKey(l.Func)] {
			rec["class"] = "unreachable"
			rec["reason"] = "package is not in the import closure of the compiler entry points"
			inventory = append(inventory, rec)
			continue
		}
		if lc, ok := listed[name]; ok {
			used[name] = true
			rec["class"] = lc.Class
			rec["reason"] = lc.Reason
			inventory = append(inventory, rec)
			if lc.Class == "known-finding" {
				obls = append(obls, &Obligation{Name: name + "#commute", Kind: "commute", Func: l.Func, Desc: "map iteration order reaches the output (recorded finding): " + lc.Reason, Pos: l.Pos,
					Raw: "(set-logic ALL)\n; order-dependent by inspection and by experiment (see known_findings.jsonl); kept as a failing obligation\n(assert true)\n(check-sat)\n"})
				continue
			}
			prog.Assumed["C07 map iteration "+name+" ("+lc.Class+", not proved): "+lc.Reason] = true
			continue
		}
		if l.Stmt == nil {
			errs = append(errs, "maporder: "+name+" at "+l.Pos+": reflective map iteration ("+l.Kind+") is reachable and neither proved nor listed")
			continue
		}
		if why, ok := sortedAfter(l); ok {
			rec["class"] = "sorted-after"
			rec["reason"] = why
			inventory = append(inventory, rec)
			obls = append(obls, &Obligation{Name: name + "#sorted-after", Kind: "commute", Func: l.Func, Desc: "map iteration only collects into a slice that is sorted before use: " + why, Pos: l.Pos,
				Raw: "(set-logic ALL)\n; structural obligation decided by the recognizer in extras_c07.go: " + why + "\n(assert false)\n(check-sat)\n"})
			continue
		}
		cobls, cerr := commuteObligations(prog, l, name)
		if cerr != "" {
			errs = append(errs, "maporder: "+name+" at "+l.Pos+": reachable map iteration is neither proved order-insensitive nor listed: "+cerr)
			continue
		}
		rec["class"] = "commute"
		rec["reason"] = fmt.Sprintf("%d relational obligations", len(cobls))
		inventory = append(inventory, rec)
		obls = append(obls, cobls...)
	}
	for n := range listed {
		if !used[n] {
			errs = append(errs, "maporder: C07-loops.json lists "+n+" but no such reachable map iteration exists")
		}
	}
	prog.Inventory = inventory
	return obls, errs
}

// sortedAfter recognizes:  for k[,v] := range m { xs = append(xs, k|v) } ; sort.Strings(xs) / sort.Ints(xs) /
// sort.Slice(xs, less) as the next statement that mentions xs, where for sort.Slice the appended element is the key
// (distinct) or the comparator compares a field through which the map was keyed (not checked: then it is not accepted).
func sortedAfter(l *mapLoop) (string, bool) {
	x := l.Stmt
	if why, ok := sortedAfterMulti(l); ok {
		return why, true
	}
	if len(x.Body.List) != 1 {
		return "", false
	}
	as, ok := x.Body.List[0].(*ast.AssignStmt)
	if !ok || len(as.Lhs) != 1 || len(as.Rhs) != 1 {
		return "", false
	}
	call, ok := as.Rhs[0].(*ast.CallExpr)
	if !ok || len(call.Args) != 2 {
		return "", false
	}
	if id, ok := call.Fun.(*ast.Ident); !ok || id.Name != "append" {
		return "", false
	}
	dst, ok := as.Lhs[0].(*ast.Ident)
	if !ok || exprStr(call.Args[0]) != dst.Name {
		return "", false
	}
	key, _ := x.Key.(*ast.Ident)
	appendsKey := key != nil && exprStr(call.Args[1]) != "_" && exprStr(call.Args[1]) == key.Name
	val, _ := x.Value.(*ast.Ident)
	appendsVal := val != nil && exprStr(call.Args[1]) == val.Name
	if !appendsKey && !appendsVal {
		return "", false
	}
	// find the enclosing block and the statement after the loop
	var next ast.Stmt
	ast.Inspect(l.FI.Decl.Body, func(n ast.Node) bool {
		bl, ok := n.(*ast.BlockStmt)
		if !ok {
			return true
		}
		for i, st := range bl.List {
			if st == ast.Stmt(x) && i+1 < len(bl.List) {
				next = bl.List[i+1]
			}
		}
		return true
	})
	es, ok := next.(*ast.ExprStmt)
	if !ok {
		return "", false
	}
	sc, ok := es.X.(*ast.CallExpr)
	if !ok || len(sc.Args) < 1 || exprStr(sc.Args[0]) != dst.Name {
		return "", false
	}
	fn := exprStr(sc.Fun)
	if appendsVal {
		// values: accepted only for sort.Slice(xs, func(i, j) bool { return K(xs[i]) < K(xs[j]) }) when every insertion
		// into the ranged map in this function has the form m[K(e)] = e (so distinct values have distinct K)
		if fn != "sort.Slice" || len(sc.Args) != 2 {
			return "", false
		}
		lit, ok := sc.Args[1].(*ast.FuncLit)
		if !ok || len(lit.Body.List) != 1 || len(lit.Type.Params.List) == 0 {
			return "", false
		}
		ret, ok := lit.Body.List[0].(*ast.ReturnStmt)
		if !ok || len(ret.Results) != 1 {
			return "", false
		}
		cmp, ok := ret.Results[0].(*ast.BinaryExpr)
		if !ok || cmp.Op != token.LSS {
			return "", false
		}
		var ps []string
		for _, f := range lit.Type.Params.List {
			for _, n := range f.Names {
				ps = append(ps, n.Name)
			}
		}
		if len(ps) != 2 {
			return "", false
		}
		norm := func(e ast.Expr, elem string) string {
			t := exprStr(e)
			if isIdentText(elem) {
				t = regexp.MustCompile(`\b`+regexp.QuoteMeta(elem)+`\b`).ReplaceAllString(t, "#")
			} else {
				t = strings.ReplaceAll(t, elem, "#")
			}
			t = strings.TrimSuffix(t, ".String()")
			if strings.HasPrefix(t, "string(") && strings.HasSuffix(t, ")") {
				t = t[7 : len(t)-1]
			}
			return t
		}
		kl := norm(cmp.X, dst.Name+"["+ps[0]+"]")
		kr := norm(cmp.Y, dst.Name+"["+ps[1]+"]")
		if kl != kr || !strings.Contains(kl, "#") {
			return "", false
		}
		// all insertions into the ranged map
		mname := exprStr(x.X)
		okAll, n := true, 0
		ast.Inspect(l.FI.Decl.Body, func(nd ast.Node) bool {
			a, ok := nd.(*ast.AssignStmt)
			if !ok || len(a.Lhs) != 1 || len(a.Rhs) != 1 {
				return true
			}
			ix, ok := a.Lhs[0].(*ast.IndexExpr)
			if !ok || exprStr(ix.X) != mname {
				return true
			}
			n++
			if norm(ix.Index, exprStr(a.Rhs[0])) != kl {
				okAll = false
			}
			return true
		})
		if !okAll || n == 0 {
			return "", false
		}
		return "values appended to " + dst.Name + ", then sort.Slice by " + strings.ReplaceAll(kl, "#", "x") + ", the key under which every value was inserted into " + mname + " (distinct values have distinct sort keys; String() of a string-kinded type is taken to be the identity)", true
	}
	switch fn {
	case "sort.Strings", "sort.Ints":
		return "keys appended to " + dst.Name + ", then " + fn + "(" + dst.Name + ") (keys of a map are pairwise distinct, the order is total)", true
	}
	return "", false
}

// commuteObligations builds the relational VC for one range-over-map loop, from an arbitrary state.
func commuteObligations(prog *Program, l *mapLoop, name string) (obls []*Obligation, errStr string) {
	fi := l.FI
	vc := newVC(prog, fi)
	defer func() {
		if r := recover(); r != nil {
			switch e := r.(type) {
			case unsupportedErr:
				errStr = string(e)
			case specFail:
				errStr = string(e)
			default:
				panic(r)
			}
		}
	}()
	info := fi.Pkg.TypesInfo
	x := l.Stmt
	sig := fi.Obj.Type().(*types.Signature)
	fr := &Frame{fn: fi, sig: sig, info: info, pkg: fi.Pkg}
	vc.frames = []*Frame{fr}
	vc.numberLoops(fi.Decl.Body, vc.loopPath)
	vc.analyzeBody(fi.Decl.Body, info, fi.Decl)
	vc.modAll = true
	s := &State{env: map[types.Object]*Term{}, ghost: map[string]*Term{}, heap: map[string]*Term{}, epoch: "0"}
	s.alloc = Const("alloc0."+vc.runTag, SInt)
	s.assume(Gt(s.alloc, IntLit(0)))
	vc.epochAlloc["0"] = s.alloc
	vc.entry = s
	// free variables of the loop
	seen := map[types.Object]bool{}
	ast.Inspect(x, func(n ast.Node) bool {
		id, ok := n.(*ast.Ident)
		if !ok {
			return true
		}
		o, ok := info.ObjectOf(id).(*types.Var)
		if !ok || o.Pkg() == nil || o.Parent() == o.Pkg().Scope() || o.IsField() || seen[o] {
			return true
		}
		if o.Pos() >= x.Pos() && o.Pos() <= x.End() {
			return true
		}
		seen[o] = true
		v := vc.loadedDeep(s, o.Type(), Const(smtName(o.Name())+"0."+vc.runTag, sortOf(o.Type())), o.Name())
		vc.bindParam(s, o, v)
		return true
	})
	mt := info.TypeOf(x.X).Underlying().(*types.Map)
	// inner loops cannot be cut without invariants
	inner := false
	ast.Inspect(x.Body, func(n ast.Node) bool {
		switch n.(type) {
		case *ast.ForStmt, *ast.RangeStmt:
			inner = true
		}
		return !inner
	})
	if inner {
		return nil, "the body contains a loop"
	}
	m := vc.eval(s, x.X)
	ks := sortOf(mt.Key())
	k1 := vc.loaded(s, mt.Key(), Const("ck1."+vc.runTag, ks), "k1")
	k2 := vc.loaded(s, mt.Key(), Const("ck2."+vc.runTag, ks), "k2")
	s.assume(And(vc.mapInDom(s, mt, m, k1), vc.mapInDom(s, mt, m, k2), Not(Eq(k1, k2))))
	exits := 0
	keyObj := func(e ast.Expr) *types.Var {
		if e == nil || isBlank(e) {
			return nil
		}
		id, ok := e.(*ast.Ident)
		if !ok {
			return nil
		}
		if x.Tok == token.DEFINE {
			if o := info.Defs[id]; o != nil {
				return o.(*types.Var)
			}
		}
		o, _ := info.ObjectOf(id).(*types.Var)
		return o
	}
	kv, vv := keyObj(x.Key), keyObj(x.Value)
	runBody := func(st *State, k *Term) *State {
		if kv != nil {
			vc.declVar(st, kv, k)
		}
		if vv != nil {
			v, _ := vc.mapGet(st, mt, m, k)
			vc.declVar(st, vv, v)
		}
		tgt := &jumpTarget{isLoop: true}
		fr.targets = append(fr.targets, tgt)
		nr := len(fr.rets)
		vc.execBlock(st, x.Body.List)
		fr.targets = fr.targets[:len(fr.targets)-1]
		exits += len(tgt.breaks) + (len(fr.rets) - nr) + len(fr.panics)
		for _, b := range tgt.breaks {
			vc.oblige(b, "commute", name+":exit", "the body leaves the loop early (break): the result depends on the iteration order", x.Pos(), False)
		}
		for _, r := range fr.rets[nr:] {
			vc.oblige(r, "commute", name+":exit", "the body returns from inside the loop: the result depends on the iteration order", x.Pos(), False)
		}
		fr.rets = fr.rets[:nr]
		return vc.mergeStates(append([]*State{st}, tgt.continues...))
	}
	vc.fn = fi
	base := len(vc.obls)
	a := runBody(s.clone(), k1)
	if a != nil {
		a = runBody(a, k2)
	}
	// obligations inside the body (safety etc.) are not part of the commute question: keep only commute ones
	b := runBody(s.clone(), k2)
	if b != nil {
		b = runBody(b, k1)
	}
	if a == nil || b == nil {
		return nil, "the body never completes normally"
	}
	if a.epoch != "0" || b.epoch != "0" {
		return nil, "the body calls code without a contract (whole heap havocked)"
	}
	// join the two executions: facts of both hold (fresh names are disjoint)
	j := a.clone()
	for _, f := range b.pc.facts() {
		j.assume(f)
	}
	var keep []*Obligation
	for _, o := range vc.obls[base:] {
		if o.Kind == "commute" {
			keep = append(keep, o)
		}
	}
	vc.obls = append(vc.obls[:base], keep...)
	var vars []types.Object
	for o := range seen {
		vars = append(vars, o)
	}
	sort.Slice(vars, func(i, k int) bool { return vars[i].Pos() < vars[k].Pos() })
	n := 0
	for _, o := range vars {
		if vc.boxed[o] {
			continue
		}
		va, vb := a.env[o], b.env[o]
		if va == nil || vb == nil || va == vb {
			continue
		}
		n++
		vc.oblige(j, "commute", fmt.Sprintf("%s:var:%s", name, o.Name()), "variable "+o.Name()+" has the same value after both orders", x.Pos(), Eq(va, vb))
	}
	hn := map[string]bool{}
	for k := range a.heap {
		hn[k] = true
	}
	for k := range b.heap {
		hn[k] = true
	}
	var hs []string
	for k := range hn {
		hs = append(hs, k)
	}
	sort.Strings(hs)
	for _, k := range hs {
		ha, hb := vc.heapArr(a, k, vc.heapSorts[k]), vc.heapArr(b, k, vc.heapSorts[k])
		if ha == hb {
			continue
		}
		n++
		vc.oblige(j, "commute", fmt.Sprintf("%s:heap:%s", name, k), "heap array "+k+" is the same after both orders", x.Pos(), Eq(ha, hb))
	}
	if n == 0 && exits == 0 {
		// the body has no effect at all on the surrounding state
		vc.oblige(j, "commute", name+":noeffect", "the loop body has no effect on variables or heap", x.Pos(), Eq(IntLit(0), IntLit(0)))
	}
	var out []*Obligation
	for _, o := range vc.obls {
		if o.Kind != "commute" {
			continue
		}
		o.Assume = append(append([]*Term{}, vc.bgFacts...), o.Assume...)
		o.Name = strings.Replace(o.Name, shortKey(fi.Key)+"#commute:", "", 1)
		o.Name = o.Name + "#commute"
		out = append(out, o)
	}
	return out, ""
}

// sortedAfterMulti: the body only appends the key to slices (possibly under if/else on call-free or library-pure
// conditions) and, after the loop, the first statement that mentions each such slice sorts it with sort.Strings/Ints.
func sortedAfterMulti(l *mapLoop) (string, bool) {
	x := l.Stmt
	key, _ := x.Key.(*ast.Ident)
	if key == nil || key.Name == "_" {
		return "", false
	}
	targets := map[string]bool{}
	var okBody func(list []ast.Stmt) bool
	okBody = func(list []ast.Stmt) bool {
		for _, st := range list {
			switch s := st.(type) {
			case *ast.AssignStmt:
				if len(s.Lhs) != 1 || len(s.Rhs) != 1 {
					return false
				}
				call, ok := s.Rhs[0].(*ast.CallExpr)
				if !ok || len(call.Args) != 2 {
					return false
				}
				if id, ok := call.Fun.(*ast.Ident); !ok || id.Name != "append" {
					return false
				}
				dst, ok := s.Lhs[0].(*ast.Ident)
				if !ok || exprStr(call.Args[0]) != dst.Name || exprStr(call.Args[1]) != key.Name {
					return false
				}
				targets[dst.Name] = true
			case *ast.IfStmt:
				if s.Init != nil || !okBody(s.Body.List) {
					return false
				}
				if s.Else != nil {
					eb, ok := s.Else.(*ast.BlockStmt)
					if !ok || !okBody(eb.List) {
						return false
					}
				}
			default:
				return false
			}
		}
		return true
	}
	if !okBody(x.Body.List) || len(targets) == 0 {
		return "", false
	}
	var rest []ast.Stmt
	ast.Inspect(l.FI.Decl.Body, func(n ast.Node) bool {
		bl, ok := n.(*ast.BlockStmt)
		if !ok {
			return true
		}
		for i, st := range bl.List {
			if st == ast.Stmt(x) {
				rest = bl.List[i+1:]
			}
		}
		return true
	})
	mentions := func(st ast.Stmt, name string) bool {
		found := false
		ast.Inspect(st, func(n ast.Node) bool {
			if id, ok := n.(*ast.Ident); ok && id.Name == name {
				found = true
			}
			return !found
		})
		return found
	}
	var names []string
	for t := range targets {
		names = append(names, t)
	}
	sort.Strings(names)
	for _, t := range names {
		sorted := false
		for _, st := range rest {
			if !mentions(st, t) {
				continue
			}
			if es, ok := st.(*ast.ExprStmt); ok {
				if sc, ok := es.X.(*ast.CallExpr); ok && len(sc.Args) == 1 && exprStr(sc.Args[0]) == t && (exprStr(sc.Fun) == "sort.Strings" || exprStr(sc.Fun) == "sort.Ints") {
					sorted = true
				}
			}
			break
		}
		if !sorted {
			return "", false
		}
	}
	return "keys appended to " + strings.Join(names, ", ") + "; each is sorted (sort.Strings/Ints) before its first other use (map keys are pairwise distinct, the order is total)", true
}
