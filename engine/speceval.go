package main

// Evaluation of spec expressions against symbolic states.

import (
	"fmt"
	"go/token"
	"go/types"
	"strconv"
	"strings"

	"golang.org/x/tools/go/packages"
)

type TV struct {
	T  *Term
	Ty types.Type // may be nil (untyped / ghost)
}

type SpecEnv struct {
	vc       *VC
	st       *State
	old      *State
	pre      *State // start of the current loop iteration (loop step clauses only)
	loopPath string // ordinal path of the loop whose clauses are being evaluated
	vars     map[string]TV
	scope    *types.Scope // innermost Go scope for identifier lookup (may be nil)
	pos      token.Pos
	pkg      *packages.Package
	objVals  map[types.Object]*Term
	depth    int
	what     string
}

type specFail string

func (env *SpecEnv) fail(e *SExpr, msg string) {
	panic(specFail(fmt.Sprintf("spec %q: %s (in %s)", e.String(), msg, env.what)))
}

func (env *SpecEnv) with(name string, tv TV) *SpecEnv {
	n := *env
	n.vars = make(map[string]TV, len(env.vars)+1)
	for k, v := range env.vars {
		n.vars[k] = v
	}
	n.vars[name] = tv
	return &n
}

func (env *SpecEnv) inState(s *State) *SpecEnv {
	n := *env
	n.st = s
	return &n
}

// evalBool evaluates a spec expression to a Bool term.
func (env *SpecEnv) evalBool(e *SExpr) *Term {
	tv := env.eval(e)
	if tv.T.Sort != SBool {
		env.fail(e, "expected boolean, got "+tv.T.Sort.S)
	}
	return tv.T
}

func (env *SpecEnv) resolveType(t *SType) types.Type {
	switch {
	case t.Ptr != nil:
		return types.NewPointer(env.resolveType(t.Ptr))
	case t.Slice != nil:
		return types.NewSlice(env.resolveType(t.Slice))
	case t.MapK != nil:
		return types.NewMap(env.resolveType(t.MapK), env.resolveType(t.MapV))
	case t.Pkg != "":
		for _, imp := range env.pkg.Types.Imports() {
			if imp.Name() == t.Pkg {
				if o := imp.Scope().Lookup(t.Name); o != nil {
					return o.Type()
				}
			}
		}
		// any loaded package with that name
		for _, p := range env.vc.prog.Pkgs {
			if p.Types.Name() == t.Pkg {
				if o := p.Types.Scope().Lookup(t.Name); o != nil {
					return o.Type()
				}
			}
		}
		panic(specFail("unknown type " + t.String()))
	}
	if o := types.Universe.Lookup(t.Name); o != nil {
		if tn, ok := o.(*types.TypeName); ok {
			return tn.Type()
		}
	}
	if o := env.pkg.Types.Scope().Lookup(t.Name); o != nil {
		if tn, ok := o.(*types.TypeName); ok {
			return tn.Type()
		}
	}
	panic(specFail("unknown type " + t.String()))
}

func (env *SpecEnv) lookupObj(name string) types.Object {
	if env.scope != nil {
		if _, o := env.scope.LookupParent(name, env.pos); o != nil {
			return o
		}
	}
	if env.pkg != nil {
		if o := env.pkg.Types.Scope().Lookup(name); o != nil {
			return o
		}
	}
	return types.Universe.Lookup(name)
}

func (env *SpecEnv) objValue(e *SExpr, o types.Object) TV {
	vc := env.vc
	switch x := o.(type) {
	case *types.Nil:
		return TV{IntLit(0), types.Typ[types.UntypedNil]}
	case *types.Const:
		return TV{constTerm(x.Val(), x.Type()), x.Type()}
	case *types.Var:
		if v, ok := env.objVals[o]; ok {
			return TV{v, x.Type()}
		}
		if x.Pkg() != nil && x.Parent() == x.Pkg().Scope() {
			if vc.prog.AddrTakenGlobals[x] {
				return TV{vc.loadPtrQuiet(env.st, x.Type(), vc.globalAddr(x)), x.Type()}
			}
			if !vc.prog.MutableGlobals[x] {
				if _, hasInit := vc.prog.GlobalInit[x]; !hasInit {
					if _, known := vc.prog.GlobalInfo[x]; known {
						return TV{zeroValue(x.Type()), x.Type()}
					}
				}
				if _, known := vc.prog.GlobalInfo[x]; known {
					return TV{Const(smtName(vc.globalName(x))+".const", sortOf(x.Type())), x.Type()}
				}
			}
			return TV{vc.heapArr(env.st, vc.globalName(x), sortOf(x.Type())), x.Type()}
		}
		v, ok := env.st.env[o]
		if !ok {
			env.fail(e, "variable "+x.Name()+" has no value in this state")
		}
		if vc.boxed[o] {
			return TV{vc.loadPtrQuiet(env.st, x.Type(), v), x.Type()}
		}
		return TV{v, x.Type()}
	}
	env.fail(e, fmt.Sprintf("cannot use %s (%T) as a value", o.Name(), o))
	return TV{}
}

// loadPtrQuiet reads without adding facts to the state.
func (vc *VC) loadPtrQuiet(s *State, elemT types.Type, ref *Term) *Term {
	if st, ok := isStructType(elemT); ok {
		args := make([]*Term, st.NumFields())
		for i := 0; i < st.NumFields(); i++ {
			_, arr := vc.fieldArr(s, elemT, st.Field(i))
			args[i] = Select(arr, ref)
		}
		return Ctor(sortOf(elemT), args...)
	}
	_, arr := vc.boxArr(s, elemT)
	return Select(arr, ref)
}

func (env *SpecEnv) eval(e *SExpr) TV {
	vc := env.vc
	switch e.K {
	case "int":
		n, err := strconv.ParseInt(e.Name, 0, 64)
		if err != nil {
			return TV{BigLit(e.Name), types.Typ[types.UntypedInt]}
		}
		return TV{IntLit(n), types.Typ[types.UntypedInt]}
	case "str":
		return TV{strLit(e.Name), types.Typ[types.String]}
	case "id":
		if tv, ok := env.vars[e.Name]; ok {
			return tv
		}
		if strings.HasPrefix(e.Name, "$") {
			if t, ok := env.st.ghost[e.Name]; ok {
				return TV{t, vc.ghostTypes[e.Name]}
			}
			switch e.Name {
			case "$spawned", "$fcalls":
				return TV{IntLit(0), types.Typ[types.Int]}
			case "$quiet", "$defaultTaken", "$inWorker", "$failed", "$recovered", "$exited":
				return TV{False, types.Typ[types.Bool]}
			case "$exitcode":
				return TV{IntLit(0), types.Typ[types.Int]}
			}
			env.fail(e, "unknown ghost variable")
		}
		switch e.Name {
		case "true":
			return TV{True, types.Typ[types.Bool]}
		case "false":
			return TV{False, types.Typ[types.Bool]}
		case "nil":
			return TV{IntLit(0), types.Typ[types.UntypedNil]}
		}
		o := env.lookupObj(e.Name)
		if o == nil {
			env.fail(e, "unknown identifier")
		}
		return env.objValue(e, o)
	case "un":
		switch e.Op {
		case "!":
			return TV{Not(env.evalBool(e.X)), types.Typ[types.Bool]}
		case "-":
			x := env.eval(e.X)
			return TV{Neg(x.T), x.Ty}
		case "*":
			x := env.eval(e.X)
			p, ok := x.Ty.Underlying().(*types.Pointer)
			if !ok {
				env.fail(e, "deref of non-pointer")
			}
			return TV{vc.loadPtrQuiet(env.st, p.Elem(), x.T), p.Elem()}
		}
	case "bin":
		return env.evalBin(e)
	case "sel":
		return env.evalSel(e)
	case "idx":
		x := env.eval(e.X)
		i := env.eval(e.Y)
		return env.index(e, x, i)
	case "slice":
		x := env.eval(e.X)
		var lo, hi *Term
		if e.Y != nil {
			lo = env.eval(e.Y).T
		} else {
			lo = IntLit(0)
		}
		if x.T.Sort == SStr {
			if e.Z != nil {
				hi = env.eval(e.Z).T
			} else {
				hi = strLen(x.T)
			}
			return TV{strSub(x.T, lo, hi), x.Ty}
		}
		if x.T.Sort.DT != nil && strings.HasPrefix(x.T.Sort.S, "Slice_") {
			if e.Z != nil {
				hi = env.eval(e.Z).T
			} else {
				hi = sliceLen(x.T)
			}
			return TV{mkSlice(x.T.Sort, arrShift(sliceElems(x.T), lo), Sub(hi, lo), Sub(Sel(x.T, "cap"), lo), And(Sel(x.T, "isnil"), Eq(hi, lo))), x.Ty}
		}
		env.fail(e, "slice of unsupported value")
	case "call":
		return env.evalCall(e)
	case "q":
		return env.evalQuant(e)
	}
	env.fail(e, "unsupported spec expression")
	return TV{}
}

func (env *SpecEnv) evalQuant(e *SExpr) TV {
	n := env
	var vars []*Term
	var ranges []*Term
	for _, b := range e.Vars {
		ty := env.resolveType(b.Type)
		env.depth++
		v := BoundVar(fmt.Sprintf("%s!q%d", b.Name, qctr()), sortOf(ty))
		vars = append(vars, v)
		n = n.with(b.Name, TV{v, ty})
		if lo, hi, ok := intRange(ty); ok && !is64(ty) {
			ranges = append(ranges, And(Le(BigLit(lo), v), Le(v, BigLit(hi))))
		} else if _, ok := ty.Underlying().(*types.Pointer); ok {
			ranges = append(ranges, Ge(v, IntLit(0)), refTyped(ty, v))
		}
	}
	body := n.evalBool(e.X)
	if e.Name == "forall" {
		return TV{ForallNorm(vars, ranges, body), types.Typ[types.Bool]}
	}
	return TV{Exists(vars, And(And(ranges...), body)), types.Typ[types.Bool]}
}

var qcounter int

func qctr() int { qcounter++; return qcounter }

func (env *SpecEnv) evalBin(e *SExpr) TV {
	B := types.Typ[types.Bool]
	switch e.Op {
	case "&&":
		return TV{And(env.evalBool(e.X), env.evalBool(e.Y)), B}
	case "||":
		return TV{Or(env.evalBool(e.X), env.evalBool(e.Y)), B}
	case "==>":
		return TV{Implies(env.evalBool(e.X), env.evalBool(e.Y)), B}
	case "<==>":
		return TV{Eq(env.evalBool(e.X), env.evalBool(e.Y)), B}
	}
	l := env.eval(e.X)
	r := env.eval(e.Y)
	switch e.Op {
	case "==", "!=":
		var eq *Term
		lSlice := isSliceSort(l.T.Sort)
		rSlice := isSliceSort(r.T.Sort)
		switch {
		case lSlice && r.Ty != nil && isNilType(r.Ty):
			eq = Sel(l.T, "isnil")
		case rSlice && l.Ty != nil && isNilType(l.Ty):
			eq = Sel(r.T, "isnil")
		default:
			if l.T.Sort != r.T.Sort {
				env.fail(e, "comparison of different sorts "+l.T.Sort.S+" vs "+r.T.Sort.S)
			}
			eq = Eq(l.T, r.T)
		}
		if e.Op == "!=" {
			eq = Not(eq)
		}
		return TV{eq, B}
	}
	if l.T.Sort == SStr && e.Op == "+" {
		return TV{strConcat(l.T, r.T), l.Ty}
	}
	if l.T.Sort != SInt || r.T.Sort != SInt {
		env.fail(e, "arithmetic on non-integers: "+l.T.Sort.S+" "+r.T.Sort.S)
	}
	ty := l.Ty
	if ty == nil || isUntyped(ty) {
		ty = r.Ty
	}
	switch e.Op {
	case "<":
		return TV{Lt(l.T, r.T), B}
	case "<=":
		return TV{Le(l.T, r.T), B}
	case ">":
		return TV{Gt(l.T, r.T), B}
	case ">=":
		return TV{Ge(l.T, r.T), B}
	case "+":
		return TV{Add(l.T, r.T), ty}
	case "-":
		return TV{Sub(l.T, r.T), ty}
	case "*":
		return TV{Mul(l.T, r.T), ty}
	case "/":
		return TV{goDiv(l.T, r.T), ty}
	case "%":
		return TV{Sub(l.T, Mul(r.T, goDiv(l.T, r.T))), ty}
	}
	env.fail(e, "unsupported operator "+e.Op)
	return TV{}
}

func isUntyped(t types.Type) bool {
	b, ok := t.(*types.Basic)
	return ok && b.Info()&types.IsUntyped != 0
}

func isSliceSort(s *Sort) bool { return s.DT != nil && strings.HasPrefix(s.S, "Slice_") }

func (env *SpecEnv) evalSel(e *SExpr) TV {
	vc := env.vc
	// package-qualified name?
	if e.X.K == "id" {
		if _, bound := env.vars[e.X.Name]; !bound && !strings.HasPrefix(e.X.Name, "$") {
			if o := env.lookupObj(e.X.Name); o != nil {
				if pn, ok := o.(*types.PkgName); ok {
					m := pn.Imported().Scope().Lookup(e.Name)
					if m == nil {
						env.fail(e, "unknown package member")
					}
					return env.objValue(e, m)
				}
			} else if env.pkg != nil {
				for _, imp := range env.pkg.Types.Imports() {
					if imp.Name() == e.X.Name {
						if m := imp.Scope().Lookup(e.Name); m != nil {
							return env.objValue(e, m)
						}
					}
				}
			}
		}
	}
	x := env.eval(e.X)
	if x.Ty == nil {
		env.fail(e, "selector on untyped value")
	}
	// pseudo-fields on slices
	obj, path, _ := types.LookupFieldOrMethod(x.Ty, true, env.pkgTypes(), e.Name)
	f, ok := obj.(*types.Var)
	if !ok {
		// allow access to unexported fields of other packages
		obj, path = lookupFieldAnyPkg(x.Ty, e.Name)
		f, ok = obj.(*types.Var)
		if !ok {
			env.fail(e, "no field "+e.Name+" in "+x.Ty.String())
		}
	}
	cur, ct := x.T, x.Ty
	for _, idx := range path {
		if p, ok := ct.Underlying().(*types.Pointer); ok {
			st, _ := isStructType(p.Elem())
			fld := st.Field(idx)
			_, arr := vc.fieldArr(env.st, p.Elem(), fld)
			cur = Select(arr, cur)
			ct = fld.Type()
		} else {
			st, _ := isStructType(ct)
			fld := st.Field(idx)
			cur = Sel(cur, fieldSelName(fld))
			ct = fld.Type()
		}
	}
	_ = f
	return TV{cur, ct}
}

func (env *SpecEnv) pkgTypes() *types.Package {
	if env.pkg != nil {
		return env.pkg.Types
	}
	return nil
}

func lookupFieldAnyPkg(t types.Type, name string) (types.Object, []int) {
	var st *types.Struct
	if p, ok := t.Underlying().(*types.Pointer); ok {
		st, _ = isStructType(p.Elem())
	} else {
		st, _ = isStructType(t)
	}
	if st == nil {
		return nil, nil
	}
	for i := 0; i < st.NumFields(); i++ {
		if st.Field(i).Name() == name {
			return st.Field(i), []int{i}
		}
	}
	for i := 0; i < st.NumFields(); i++ {
		if st.Field(i).Embedded() {
			if o, p := lookupFieldAnyPkg(st.Field(i).Type(), name); o != nil {
				return o, append([]int{i}, p...)
			}
		}
	}
	return nil, nil
}

func (env *SpecEnv) index(e *SExpr, x, i TV) TV {
	vc := env.vc
	if x.Ty == nil {
		// ghost array
		if x.T.Sort.Val != nil {
			return TV{Select(x.T, i.T), nil}
		}
		env.fail(e, "index on untyped value")
	}
	switch u := x.Ty.Underlying().(type) {
	case *types.Map:
		a := vc.mapArrs(env.st, u)
		ok := And(Not(Eq(x.T, IntLit(0))), Select(Select(a.dom, x.T), i.T))
		return TV{Ite(ok, Select(Select(a.val, x.T), i.T), zeroValue(u.Elem())), u.Elem()}
	case *types.Slice:
		return TV{Select(sliceElems(x.T), i.T), u.Elem()}
	case *types.Array:
		return TV{Select(x.T, i.T), u.Elem()}
	case *types.Basic:
		if u.Info()&types.IsString != 0 {
			return TV{strAt(x.T, i.T), types.Typ[types.Uint8]}
		}
	case *types.Pointer:
		if at, ok := u.Elem().Underlying().(*types.Array); ok {
			arr := vc.loadPtrQuiet(env.st, u.Elem(), x.T)
			return TV{Select(arr, i.T), at.Elem()}
		}
	}
	env.fail(e, "index on "+x.Ty.String())
	return TV{}
}

func (env *SpecEnv) evalCall(e *SExpr) TV {
	vc := env.vc
	B := types.Typ[types.Bool]
	if e.X.K == "id" {
		name := e.X.Name
		if tv, ok := env.streamBuiltin(name, e); ok {
			return tv
		}
		if tv, ok := env.fsBuiltin(name, e); ok {
			return tv
		}
		if name == "ncalls" || name == "callarg" || name == "callret" || name == "callrecv" {
			if len(e.Args) == 0 || e.Args[0].K != "str" {
				env.fail(e, name+": first argument must be a string literal (callee expression text)")
			}
			k := "$call." + e.Args[0].Name
			if name == "ncalls" {
				return TV{ghostInt(env.st, k+".n"), types.Typ[types.Int]}
			}
			if name == "callrecv" {
				// receiver of the last call (recorded for calls of contracted methods)
				t, has := env.st.ghost[k+".recv"]
				if !has {
					env.fail(e, "no receiver of "+e.Args[0].Name+" recorded on any path to this point (callrecv needs a contracted method)")
				}
				return TV{t, vc.ghostTypes[k+".recv"]}
			}
			idx, ok := intConst(env.eval(e.Args[1]).T)
			if !ok {
				env.fail(e, name+": index must be a constant")
			}
			kind := "arg"
			if name == "callret" {
				kind = "ret"
			}
			gk := fmt.Sprintf("%s.%s%d", k, kind, idx)
			t, has := env.st.ghost[gk]
			if !has {
				env.fail(e, "no call of "+e.Args[0].Name+" recorded on any path to this point")
			}
			return TV{t, vc.ghostTypes[gk]}
		}
		if name == "pre" {
			if env.pre == nil {
				env.fail(e, "pre() is only available in a loop step clause")
			}
			n := env.inState(env.pre)
			n.vars = map[string]TV{}
			for k, v := range env.vars {
				n.vars[k] = v
			}
			// ghost variables and call records as they were at the start of the iteration
			for k, t := range env.pre.ghost {
				n.vars[k] = TV{t, env.vc.ghostTypes[k]}
			}
			// role aliases ($i, $xs ...) of the loop denote the values at the start of the iteration too
			if env.loopPath != "" {
				for _, role := range []string{"$i", "$k", "$v", "$visited", "$xs"} {
					if t, ok := env.pre.ghost[role+"@"+env.loopPath]; ok {
						n.vars[role] = TV{t, env.vc.ghostTypes[role+"@"+env.loopPath]}
					}
				}
			}
			return n.eval(e.Args[0])
		}
		switch name {
		case "old":
			if env.old == nil {
				env.fail(e, "old() not available here")
			}
			n := env.inState(env.old)
			return n.eval(e.Args[0])
		case "len":
			x := env.eval(e.Args[0])
			switch {
			case x.T.Sort == SStr:
				return TV{strLen(x.T), types.Typ[types.Int]}
			case isSliceSort(x.T.Sort):
				// every Go slice value has 0 <= len: a contract may rely on it for a slice the code has not loaded yet
				if env.st != nil && !env.st.dead && !hasVarTerm(x.T) {
					env.st.assume(Ge(sliceLen(x.T), IntLit(0)))
				}
				return TV{sliceLen(x.T), types.Typ[types.Int]}
			}
			if x.Ty != nil {
				switch u := x.Ty.Underlying().(type) {
				case *types.Map:
					a := vc.mapArrs(env.st, u)
					return TV{Ite(Eq(x.T, IntLit(0)), IntLit(0), Select(a.card, x.T)), types.Typ[types.Int]}
				case *types.Array:
					return TV{IntLit(u.Len()), types.Typ[types.Int]}
				}
			}
			env.fail(e, "len of unsupported value")
		case "cap":
			x := env.eval(e.Args[0])
			return TV{Sel(x.T, "cap"), types.Typ[types.Int]}
		case "inDom":
			m := env.eval(e.Args[0])
			k := env.eval(e.Args[1])
			mt, ok := m.Ty.Underlying().(*types.Map)
			if !ok {
				env.fail(e, "inDom on non-map")
			}
			a := vc.mapArrs(env.st, mt)
			return TV{And(Not(Eq(m.T, IntLit(0))), Select(Select(a.dom, m.T), k.T)), B}
		case "ite":
			c := env.evalBool(e.Args[0])
			a := env.eval(e.Args[1])
			b := env.eval(e.Args[2])
			ty := a.Ty
			if ty == nil || isUntyped(ty) {
				ty = b.Ty
			}
			return TV{Ite(c, a.T, b.T), ty}
		case "fresh":
			if env.old == nil {
				env.fail(e, "fresh() needs an old state")
			}
			x := env.eval(e.Args[0])
			return TV{And(Ge(x.T, env.old.alloc), Gt(x.T, IntLit(0))), B}
		case "allocated":
			x := env.eval(e.Args[0])
			return TV{Lt(x.T, env.st.alloc), B}
		case "lastIndex", "indexOf":
			a := env.eval(e.Args[0])
			b := env.eval(e.Args[1])
			fn := "std.strings.LastIndex"
			if name == "indexOf" {
				fn = "std.strings.Index"
			}
			return TV{App(fn, SInt, a.T, b.T), types.Typ[types.Int]}
		case "lastSeg":
			a := env.eval(e.Args[0])
			b := env.eval(e.Args[1])
			return TV{lastSegTerm(a.T, b.T), types.Typ[types.String]}
		case "trimSuffix":
			a := env.eval(e.Args[0])
			b := env.eval(e.Args[1])
			return TV{App("std.strings.TrimSuffix", SStr, a.T, b.T), types.Typ[types.String]}
		case "chcap", "sent", "recvd", "wgadd", "wgdone", "sentNonNil":
			x := env.eval(e.Args[0])
			ref := x.T
			if name == "wgadd" || name == "wgdone" {
				// argument is the WaitGroup variable: use its address
				if e.Args[0].K == "id" {
					if o := env.lookupObj(e.Args[0].Name); o != nil && vc.boxed[o] {
						ref = env.st.env[o]
					}
				}
			}
			if name == "sentNonNil" {
				return TV{Eq(Select(vc.ghostArr(env.st, name), ref), IntLit(0)), types.Typ[types.Bool]}
			}
			return TV{Select(vc.ghostArr(env.st, name), ref), types.Typ[types.Int]}
		case "wfPEG":
			// the parser's syntax tree obeys the grammar's child-sequence automata; token ranges lie in p.buffer
			if len(e.Args) == 0 {
				return TV{env.pegAxioms(Const("peg.buflen", SInt)), B}
			}
			buf := env.eval(&SExpr{K: "sel", X: e.Args[0], Name: "buffer"})
			return TV{And(env.pegAxioms(Const("peg.buflen", SInt)), Eq(Const("peg.buflen", SInt), sliceLen(buf.T))), B}
		case "pegst":
			x := env.eval(e.Args[0])
			return TV{App("peg.st", SInt, x.T), types.Typ[types.Int]}
		case "pegowner":
			x := env.eval(e.Args[0])
			return TV{App("peg.owner", SInt, App("peg.st", SInt, x.T)), types.Typ[types.Int]}
		case "pegnext":
			x := env.eval(e.Args[0])
			r := env.eval(e.Args[1])
			return TV{App("peg.only", SBool, App("peg.st", SInt, x.T), r.T), B}
		case "pegacc":
			x := env.eval(e.Args[0])
			return TV{App("peg.acc", SBool, App("peg.st", SInt, x.T)), B}
		case "prefixof":
			a := env.eval(e.Args[0])
			b := env.eval(e.Args[1])
			return TV{App("sx.prefixof", SBool, a.T, b.T), B}
		case "sprintf":
			var args []*Term
			for _, a := range e.Args[1:] {
				args = append(args, env.eval(a).T)
			}
			if e.Args[0].K != "str" {
				env.fail(e, "sprintf format must be a literal")
			}
			return TV{sprintfTerm(e.Args[0].Name, args), types.Typ[types.String]}
		case "unchanged":
			if env.old == nil {
				env.fail(e, "unchanged() needs an old state")
			}
			a := env.eval(e.Args[0])
			b := env.inState(env.old).eval(e.Args[0])
			return TV{Eq(a.T, b.T), B}
		case "isnil":
			x := env.eval(e.Args[0])
			if isSliceSort(x.T.Sort) {
				return TV{Sel(x.T, "isnil"), B}
			}
			return TV{Eq(x.T, IntLit(0)), B}
		}
		if tv, ok := env.vars[name]; ok && tv.T.Sort.Val != nil && len(e.Args) == 1 {
			return TV{Select(tv.T, env.eval(e.Args[0]).T), nil}
		}
		// pure spec function
		if pf := env.lookupPure(name); pf != nil && pf.Ghost {
			return env.callGhost(e, pf)
		}
		if pf := env.lookupPure(name); pf != nil {
			return env.callPure(e, pf)
		}
		// type conversion or Go function
		if o := env.lookupObj(name); o != nil {
			switch x := o.(type) {
			case *types.TypeName:
				a := env.eval(e.Args[0])
				return env.convert(e, a, x.Type())
			case *types.Func:
				var args []TV
				for _, a := range e.Args {
					args = append(args, env.eval(a))
				}
				return env.callGo(e, x, nil, args)
			case *types.Builtin:
				env.fail(e, "builtin "+name+" not supported in specs")
			}
		}
		env.fail(e, "unknown function "+name)
	}
	if e.X.K == "sel" {
		// pkg.Func(...) or x.Method(...) or pkg.Type(x)
		if e.X.X.K == "id" {
			if _, bound := env.vars[e.X.X.Name]; !bound {
				if o := env.lookupObj(e.X.X.Name); o != nil {
					if pn, ok := o.(*types.PkgName); ok {
						m := pn.Imported().Scope().Lookup(e.X.Name)
						switch x := m.(type) {
						case *types.TypeName:
							return env.convert(e, env.eval(e.Args[0]), x.Type())
						case *types.Func:
							var args []TV
							for _, a := range e.Args {
								args = append(args, env.eval(a))
							}
							return env.callGo(e, x, nil, args)
						}
						if pf, ok := vc.prog.Pures[pn.Imported().Path()+"."+e.X.Name]; ok {
							return env.callPure(e, pf)
						}
						env.fail(e, "unknown package function")
					}
				}
			}
		}
		recv := env.eval(e.X.X)
		if recv.Ty == nil {
			env.fail(e, "method call on untyped value")
		}
		obj, _, _ := types.LookupFieldOrMethod(recv.Ty, true, env.pkgTypes(), e.X.Name)
		fn, ok := obj.(*types.Func)
		if !ok {
			// try with the method's own package
			if n := namedOf(recv.Ty); n != nil {
				obj, _, _ = types.LookupFieldOrMethod(recv.Ty, true, n.Obj().Pkg(), e.X.Name)
				fn, ok = obj.(*types.Func)
			}
		}
		if !ok {
			env.fail(e, "no method "+e.X.Name+" on "+recv.Ty.String())
		}
		var args []TV
		for _, a := range e.Args {
			args = append(args, env.eval(a))
		}
		return env.callGo(e, fn, &recv, args)
	}
	env.fail(e, "unsupported call")
	return TV{}
}

func namedOf(t types.Type) *types.Named {
	if p, ok := t.(*types.Pointer); ok {
		t = p.Elem()
	}
	n, _ := t.(*types.Named)
	return n
}

func (env *SpecEnv) convert(e *SExpr, a TV, to types.Type) TV {
	if a.T.Sort == SInt && sortOf(to) == SInt {
		from := a.Ty
		if from == nil || isUntyped(from) {
			return TV{a.T, to}
		}
		// exact conversion (pure formula, no state naming)
		fb, fsigned, ok1 := intBits(from)
		tb, tsigned, ok2 := intBits(to)
		if ok1 && ok2 && !((fsigned == tsigned && tb >= fb) || (!fsigned && tsigned && tb > fb)) {
			m := BigLit(pow2(tb))
			if !tsigned {
				return TV{op("mod", SInt, a.T, m), to}
			}
			half := BigLit(pow2(tb - 1))
			return TV{Sub(op("mod", SInt, Add(a.T, half), m), half), to}
		}
		return TV{a.T, to}
	}
	if a.T.Sort == sortOf(to) {
		return TV{a.T, to}
	}
	if sortOf(to) == SStr && isSliceSort(a.T.Sort) && a.Ty != nil {
		if sl, ok := a.Ty.Underlying().(*types.Slice); ok {
			if b, ok := sl.Elem().Underlying().(*types.Basic); ok {
				if b.Kind() == types.Uint8 {
					return TV{App("conv.bytes2str", SStr, sliceElems(a.T), sliceLen(a.T)), to}
				}
				return TV{App("conv.runes2str", SStr, sliceElems(a.T), sliceLen(a.T)), to}
			}
		}
	}
	env.fail(e, "unsupported conversion to "+to.String())
	return TV{}
}

func (env *SpecEnv) lookupPure(name string) *PureFunc {
	if env.pkg != nil {
		if pf, ok := env.vc.prog.Pures[env.pkg.PkgPath+"."+name]; ok {
			return pf
		}
	}
	if pf, ok := env.vc.prog.Pures[name]; ok {
		return pf
	}
	return nil
}

func (env *SpecEnv) callPure(e *SExpr, pf *PureFunc) TV {
	if len(e.Args) != len(pf.Params) {
		env.fail(e, "wrong number of arguments to pure function "+pf.Name)
	}
	if env.depth > 40 {
		env.fail(e, "pure function expansion too deep (recursive?)")
	}
	pkg := env.vc.prog.Pkgs[pf.Pkg]
	n := &SpecEnv{vc: env.vc, st: env.st, old: env.old, vars: map[string]TV{}, pkg: pkg, depth: env.depth + 1, what: "pure " + pf.Name}
	for i, p := range pf.Params {
		a := env.eval(e.Args[i])
		ty := n.resolveType(p.Type)
		if a.T.Sort != sortOf(ty) {
			env.fail(e, fmt.Sprintf("argument %d of %s: sort %s, want %s", i, pf.Name, a.T.Sort.S, sortOf(ty).S))
		}
		n.vars[p.Name] = TV{a.T, ty}
	}
	r := n.eval(pf.Body)
	return TV{r.T, n.resolveType(pf.Ret)}
}

// callGo evaluates a call to a real Go function inside a spec by symbolically executing its body (must be side-effect free).
func (env *SpecEnv) callGo(e *SExpr, fn *types.Func, recv *TV, args []TV) TV {
	vc := env.vc
	fi := vc.prog.ByObj[fn]
	if spec, ok := vc.prog.Specs[funcKey(fn)]; ok && spec.Pure && len(spec.Modifies) == 0 && !spec.ModAll {
		// trusted pure function: the same uninterpreted application that call sites use
		sig := fn.Type().(*types.Signature)
		var all []*Term
		if recv != nil {
			all = append(all, recv.T)
		}
		for _, a := range args {
			all = append(all, a.T)
		}
		t := sig.Results().At(0).Type()
		return TV{App(fmt.Sprintf("fn.%s.r0", smtName(shortKey(funcKey(fn)))), sortOf(t), all...), t}
	}
	// library functions whose model at call sites is an uninterpreted application: the same application in specs
	if fn.Pkg() != nil {
		switch fn.Pkg().Path() + "." + fn.Name() {
		case "strings.Split":
			T := types.NewSlice(types.Typ[types.String])
			return TV{App("std.strings.Split", sortOf(T), args[0].T, args[1].T), T}
		case "strings.TrimSuffix":
			return TV{App("std.strings.TrimSuffix", SStr, args[0].T, args[1].T), types.Typ[types.String]}
		case "strings.TrimPrefix":
			return TV{App("std.strings.TrimPrefix", SStr, args[0].T, args[1].T), types.Typ[types.String]}
		case "strings.Join":
			return TV{App("std.strings.Join", SStr, args[0].T, args[1].T), types.Typ[types.String]}
		}
		// any other library function the engine treats as a pure function of its value arguments (std.go: pureStdCall)
		key := fn.Pkg().Path() + "." + fn.Name()
		if sig, ok := fn.Type().(*types.Signature); ok && sig.Recv() == nil && isPureStd(key) && sig.Results().Len() >= 1 {
			if _, special := stdModels[key]; !special {
				var at []*Term
				for _, a := range args {
					at = append(at, a.T)
				}
				t := sig.Results().At(0).Type()
				return TV{App(fmt.Sprintf("std.%s.r0", smtName(key)), sortOf(t), at...), t}
			}
		}
	}
	if fi == nil || fi.Decl == nil || fi.Decl.Body == nil {
		env.fail(e, "Go function "+fn.FullName()+" has no body available for use in specs")
	}
	sig := fn.Type().(*types.Signature)
	if sig.Results().Len() != 1 {
		env.fail(e, "Go function used in spec must have exactly one result")
	}
	var at []*Term
	for _, a := range args {
		at = append(at, a.T)
	}
	var rt *Term
	if recv != nil {
		rt = recv.T
		// auto-deref / auto-address
		_, recvIsPtr := sig.Recv().Type().Underlying().(*types.Pointer)
		_, valIsPtr := recv.Ty.Underlying().(*types.Pointer)
		if !recvIsPtr && valIsPtr {
			rt = vc.loadPtrQuiet(env.st, recv.Ty.Underlying().(*types.Pointer).Elem(), rt)
		} else if recvIsPtr && !valIsPtr {
			env.fail(e, "cannot take address of value receiver in spec")
		}
	}
	st := env.st.clone()
	wasQuiet, wasPure := vc.quiet, pureMode
	vc.quiet, pureMode = true, true
	defer func() { vc.quiet, pureMode = wasQuiet, wasPure }()
	res := vc.inlineFunc(st, fi, rt, at, nil)
	return TV{res[0], sig.Results().At(0).Type()}
}

// sprintfTerm builds the deterministic uninterpreted application that models fmt.Sprintf for a literal format.
func sprintfTerm(format string, args []*Term) *Term {
	name := "sprintf!" + smtName(format) + fmt.Sprintf("!%d", len(args))
	for _, a := range args {
		name += "." + smtName(strings.NewReplacer("(", "", ")", "", " ", "_").Replace(a.Sort.S))
	}
	return App(name, SStr, args...)
}

// is64: 64-bit integer binders are quantified over all mathematical integers (their range guard never matters
// for the formulas written here and only clutters the patterns).
func is64(t types.Type) bool {
	b, _, ok := intBits(t)
	return ok && b == 64
}

// hasVarTerm: the term mentions a bound variable (quantifier or pure-function parameter).
func hasVarTerm(t *Term) bool {
	if t == nil {
		return false
	}
	if t.Op == "var" {
		return true
	}
	for _, a := range t.Args {
		if hasVarTerm(a) {
			return true
		}
	}
	return false
}
