package main

// Extra (ground / special) obligation generators, selected per property in props/<id>.json.

func runExtras(prog *Program, cfg *PropCfg, repo, verif string) ([]*Obligation, []string) {
	var obls []*Obligation
	var errs []string
	for _, x := range cfg.Extra {
		gen, ok := extraGens[x]
		if !ok {
			errs = append(errs, "unknown extra generator "+x)
			continue
		}
		o, e := gen(prog, cfg, repo, verif)
		obls = append(obls, o...)
		errs = append(errs, e...)
	}
	return obls, errs
}

var extraGens = map[string]func(prog *Program, cfg *PropCfg, repo, verif string) ([]*Obligation, []string){}
