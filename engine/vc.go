package main

// VC: per-function verification run; obligations.

import (
	"fmt"
	"go/ast"
	"go/token"
	"go/types"
	"sort"
	"strings"

	"golang.org/x/tools/go/packages"
)

type Obligation struct {
	Name   string // stable name: pkg.Recv.Func#kind:site
	Kind   string
	Func   string
	Desc   string // human readable (clause text / site source)
	Pos    string
	Assume []*Term
	Goal   *Term
	Cover  bool   // must be SAT (vacuity check)
	Raw    string // complete SMT-LIB text (ground obligations built outside the term IR)
	VCtx   *VC    // verification run (for counterexample replay)
	Clause *SExpr // contract clause this obligation comes from (postconditions)
	// result
	Status  string // unsat / sat / unknown / timeout / error
	Solver  string
	Seconds float64
	Output  string
	SMT     string
	NoRetry bool
	Joins   [][]string // case splits licensed by the joins in the path condition (SMT text of each case)
}

type FuncInfo struct {
	Key  string
	Obj  *types.Func
	Decl *ast.FuncDecl
	Pkg  *packages.Package
	Spec *FuncSpec
}

type Program struct {
	Fset   *token.FileSet
	Pkgs   map[string]*packages.Package // by path
	Funcs  map[string]*FuncInfo         // by key
	ByObj  map[*types.Func]*FuncInfo
	Specs  map[string]*FuncSpec
	Pures  map[string]*PureFunc // by pkgpath.name and by bare name (last wins within pkg)
	Axioms []NamedExpr
	AxPkg  map[string]string
	// bookkeeping for evidence
	Assumed          map[string]bool // assumed (trusted / stdlib) contracts used
	Uncontracted     map[string]bool
	Inlined          map[string]bool
	Abstracted       map[string]bool
	footprints       map[*FuncInfo]*footprintT
	peg              *pegTheory
	Inventory        []map[string]string
	Repo             string
	MutableGlobals   map[*types.Var]bool
	WrittenMaps      map[*types.Var]bool
	AddrTakenGlobals map[*types.Var]bool
	GlobalInit       map[*types.Var]ast.Expr
	GlobalInfo       map[*types.Var]*packages.Package
}

type VC struct {
	prog          *Program
	fn            *FuncInfo
	info          *types.Info
	obls          []*Obligation
	heap0         map[string]*Term
	heapSorts     map[string]*Sort
	runTag        string
	entry         *State // entry state (for old())
	boxed         map[types.Object]bool
	frames        []*Frame
	siteOrd       map[ast.Node]string // node -> ordinal string per kind
	siteOrd2      map[ast.Node]string // statements
	loopPath      map[ast.Stmt]string
	errs          []string
	inlineDepth   int
	closures      map[types.Object]*ast.FuncLit
	mode          string // "int" or "bv"
	quiet         bool   // suppress obligations (used when executing spec-level inlined pure calls)
	prefix        string // obligation name prefix for inlined callee sites
	curPos        token.Pos
	epochCtr      int
	topPanics     []*State
	analyzed      map[ast.Node]bool
	noKF          bool
	paramVals     map[*types.Var]*Term
	curClause     *SExpr
	goCount       int
	workerMode    bool
	callbacksDone map[*ast.FuncLit]bool
	callbackCount int
	lastRecv      *Term
	gaddrSeen     map[string]bool
	usedSites     map[string]bool
	heapGoTypes   map[string]types.Type
	mapValArr     map[string]bool
	epochAlloc    map[string]*Term
	bgFacts       []*Term // facts about lazily created heap versions (true in every state of this run)
	topMods       modSet
	modAll        bool
	curStmt       ast.Stmt
	ghostTypes    map[string]types.Type
}

type jumpTarget struct {
	label     string
	isLoop    bool
	breaks    []*State
	continues []*State
}

type Frame struct {
	fn                       *FuncInfo
	sig                      *types.Signature
	info                     *types.Info
	rets                     []*State
	panics                   []*State
	targets                  []*jumpTarget
	results                  []*types.Var // named results
	defers                   []*ast.DeferStmt
	isLit                    bool
	recoverV                 *Term // value returned by recover() while running deferred handlers
	recovered, runningDefers bool
	gotos                    map[string][]*State
	pkg                      *packages.Package
}

func (vc *VC) frame() *Frame { return vc.frames[len(vc.frames)-1] }

func (vc *VC) posStr(p token.Pos) string {
	if !p.IsValid() {
		return ""
	}
	pos := vc.prog.Fset.Position(p)
	f := pos.Filename
	if i := strings.Index(f, "/repo/"); i >= 0 {
		f = f[i+6:]
	}
	return fmt.Sprintf("%s:%d", f, pos.Line)
}

func (vc *VC) unsupported(n ast.Node, msg string) {
	e := fmt.Sprintf("%s: unsupported: %s", vc.posStr(n.Pos()), msg)
	vc.errs = append(vc.errs, e)
	panic(unsupportedErr(e))
}

type unsupportedErr string

// oblige records an obligation: under state s, goal must hold. Then assumes it.
func (vc *VC) oblige(s *State, kind, site, desc string, pos token.Pos, goal *Term) {
	if goal == True {
		return
	}
	if vc.quiet {
		s.assume(goal)
		return
	}
	if goal.Op == "=>" && goal.Args[1].Op == "and" && (kind == "ensures" || kind == "invariant-init" || kind == "invariant-step") {
		parts := make([]*Term, len(goal.Args[1].Args))
		for i, g := range goal.Args[1].Args {
			parts[i] = Implies(goal.Args[0], g)
		}
		goal = And(parts...)
	}
	if goal.Op == "and" && (kind == "ensures" || kind == "invariant-init" || kind == "invariant-step" || kind == "call-requires") {
		// one obligation per conjunct: smaller queries, precise diagnostics
		pc := s.pc
		for i, g := range goal.Args {
			s.pc = pc
			vc.oblige(s, kind, fmt.Sprintf("%s.%d", site, i+1), desc, pos, g)
		}
		s.pc = pc
		s.assume(goal)
		return
	}
	if s.known(goal) {
		return
	}
	name := vc.fn.Key + "#" + kind
	if site != "" {
		name += ":" + vc.prefix + site
	}
	name = shortKey(name)
	o := &Obligation{Name: name, Kind: kind, Func: shortKey(vc.fn.Key), Desc: desc, Pos: vc.posStr(pos), Assume: s.pc.facts(), Goal: goal, VCtx: vc, Clause: vc.curClause}
	vc.obls = append(vc.obls, o)
	s.assume(goal)
}

func (vc *VC) cover(s *State, site, desc string, pos token.Pos) {
	if vc.quiet {
		return
	}
	name := shortKey(vc.fn.Key + "#cover:" + site)
	o := &Obligation{Name: name, Kind: "cover", Func: shortKey(vc.fn.Key), Desc: desc, Pos: vc.posStr(pos), Assume: s.pc.facts(), Goal: False, Cover: true}
	vc.obls = append(vc.obls, o)
}

func shortKey(k string) string {
	return strings.TrimPrefix(k, "github.com/cloudwego/thriftgo/")
}

// siteName computes a stable ordinal name for an AST node of a given kind within its function.
func (vc *VC) siteName(kind string, n ast.Node) string {
	if kind == "stmt" {
		if s, ok := vc.siteOrd2[n]; ok {
			return s
		}
	} else if s, ok := vc.siteOrd[n]; ok {
		return s
	}
	// compute lazily for the enclosing function body: number all nodes by (kind-agnostic) category
	return kind + "@" + vc.posStr(n.Pos())
}

// numberSites assigns ordinals to potentially-panicking sites and calls in a function body.
func (vc *VC) numberSites(body ast.Node, prefix string) {
	counts := map[string]int{}
	add := func(kind string, n ast.Node) {
		counts[kind]++
		vc.siteOrd[n] = fmt.Sprintf("%s%s:%d", prefix, kind, counts[kind])
	}
	ast.Inspect(body, func(n ast.Node) bool {
		switch x := n.(type) {
		case *ast.IndexExpr:
			add("index", x)
		case *ast.SliceExpr:
			add("slice", x)
		case *ast.StarExpr:
			add("deref", x)
		case *ast.SelectorExpr:
			add("field", x)
		case *ast.CallExpr:
			name := "call"
			switch f := x.Fun.(type) {
			case *ast.Ident:
				name = "call." + f.Name
			case *ast.SelectorExpr:
				name = "call." + f.Sel.Name
			}
			add(name, x)
		case *ast.BinaryExpr:
			if x.Op == token.QUO || x.Op == token.REM {
				add("div", x)
			}
		case *ast.TypeAssertExpr:
			add("assert", x)
		case *ast.ReturnStmt:
			add("return", x)
		case *ast.AssignStmt:
			add("assign", x)
		}
		if st, ok := n.(ast.Stmt); ok {
			switch st.(type) {
			case *ast.BlockStmt, *ast.LabeledStmt:
			default:
				counts["stmt"]++
				vc.siteOrd2[st] = fmt.Sprintf("%sstmt:%d", prefix, counts["stmt"])
			}
		}
		return true
	})
}

// loop ordinal paths: "1", "1.1", "2" ...
func (vc *VC) numberLoops(body *ast.BlockStmt, m map[ast.Stmt]string) {
	var walk func(n ast.Node, prefix string)
	walk = func(n ast.Node, prefix string) {
		cnt := 0
		var visit func(n ast.Node) bool
		visit = func(n ast.Node) bool {
			switch x := n.(type) {
			case *ast.ForStmt:
				cnt++
				p := fmt.Sprintf("%s%d", prefix, cnt)
				m[x] = p
				walk(x.Body, p+".")
				return false
			case *ast.RangeStmt:
				cnt++
				p := fmt.Sprintf("%s%d", prefix, cnt)
				m[x] = p
				walk(x.Body, p+".")
				return false
			case *ast.FuncLit:
				// loops inside function literals are numbered in the enclosing sequence
				return true
			}
			return true
		}
		ast.Inspect(n, visit)
	}
	walk(body, "")
}

func sortedKeys(m map[string]bool) []string {
	var out []string
	for k := range m {
		out = append(out, k)
	}
	sort.Strings(out)
	return out
}
